"""Controller project generator: templates with Logix layout rules (packed BOOLs in hidden hosts, alignment, nested
UDTs, strings of any capacity), symbols of every category, memory images with boundary patterns.  Never imports pycomm3."""
import struct

ATOMS = {"BOOL": 0xC1, "SINT": 0xC2, "INT": 0xC3, "DINT": 0xC4, "LINT": 0xC5, "USINT": 0xC6, "UINT": 0xC7, "UDINT": 0xC8,
         "ULINT": 0xC9, "REAL": 0xCA, "LREAL": 0xCB}
SIZE = {0xC1: 1, 0xC2: 1, 0xC3: 2, 0xC4: 4, 0xC5: 8, 0xC6: 1, 0xC7: 2, 0xC8: 4, 0xC9: 8, 0xCA: 4, 0xCB: 8, 0xD3: 4}


def atomic(code):
    return {"k": "atomic", "code": code}


def struct_t(tid):
    return {"k": "struct", "tid": tid}


class Builder:
    def __init__(self, rnd):
        self.rnd = rnd
        self.templates = {}
        self.next_tid = rnd.choice([0x100, 0x123, 0x5A0, 0x2C1, 0x1C9])    # incl. ids whose low byte is an elementary type code
        self.next_handle = rnd.randint(0x1000, 0xE000)

    def tsize(self, t):
        return SIZE[t["code"]] if t["k"] == "atomic" else self.templates[str(t["tid"])]["size"]

    def talign(self, t):
        if t["k"] == "atomic":
            return SIZE[t["code"]]
        return self.templates[str(t["tid"])].get("align", 4)

    def new_tid(self, predefined=False):
        if predefined:
            tid = self.rnd.choice([x for x in (0x0F83, 0x0FCE, 0x0F8A, 0x0F01, 0x0FFE) if str(x) not in self.templates])
        else:
            tid = self.next_tid
            self.next_tid += self.rnd.choice([1, 1, 2, 7])
        self.next_handle = (self.next_handle * 31 + 7) % 65521 + 1
        return tid, self.next_handle

    def string_type(self, cap, name=None):
        tid, h = self.new_tid(predefined=(name == "STRING"))
        size = (4 + cap + 3) // 4 * 4
        self.templates[str(tid)] = {"id": tid, "name": name or "STR_%d" % cap, "handle": h, "size": size, "align": 4,
                                    "namepad": self.rnd.choice([0, 0, 3]),
                                    "members": [{"name": "LEN", "type": atomic(0xC4), "arr": 0, "off": 0, "bit": None},
                                                {"name": "DATA", "type": atomic(0xC2), "arr": cap, "off": 4, "bit": None}]}
        return struct_t(tid)

    def udt(self, name, fields):
        """fields: [(name, type, arr)] with type atomic/struct dicts; BOOL scalars are packed into hidden SINT hosts."""
        tid, h = self.new_tid()
        members, off, host_off, host_bit, nhost, align = [], 0, None, 8, 0, 4
        for fname, t, arr in fields:
            if t["k"] == "atomic" and t["code"] == 0xC1 and not arr:
                if host_bit >= 8:
                    host_off, host_bit = off, 0
                    members.append({"name": "ZZZZZZZZZZ%s%d" % (name, nhost), "type": atomic(0xC2), "arr": 0, "off": off, "bit": None})
                    nhost += 1
                    off += 1
                members.append({"name": fname, "type": atomic(0xC1), "arr": 0, "off": host_off, "bit": host_bit})
                host_bit += 1
                continue
            host_bit = 8
            a = self.talign(t)
            align = max(align, a)
            off = (off + a - 1) // a * a
            members.append({"name": fname, "type": t, "arr": arr, "off": off, "bit": None})
            off += self.tsize(t) * (arr or 1)
        size = (off + align - 1) // align * align
        if size == 0:
            size = 4
        self.templates[str(tid)] = {"id": tid, "name": name, "handle": h, "size": size, "align": align,
                                    "namepad": self.rnd.choice([0, 0, 2]), "members": members}
        return struct_t(tid)


def pattern(rnd, n):
    k = rnd.randint(0, 5)
    if k == 0:
        return bytes(n)
    if k == 1:
        return b"\xff" * n
    if k == 2:
        return bytes((i * 7 + 3) % 256 for i in range(n))
    return bytes(rnd.getrandbits(8) for _ in range(n))


def fill(b, t, rnd, out):
    """Memory image of one element of type t (strings get a sensible LEN, floats finite values)."""
    if t["k"] == "atomic":
        c = t["code"]
        if c == 0xCA:
            out += struct.pack("<f", rnd.choice([0.0, 1.5, -2.25, 3.4e38, 1e-40, rnd.uniform(-1e6, 1e6)]))
        elif c == 0xCB:
            out += struct.pack("<d", rnd.choice([0.0, -0.5, 1e300, 5e-324, rnd.uniform(-1e9, 1e9)]))
        elif c == 0xC1:
            out += bytes([rnd.choice([0, 1, 0xFF])])
        else:
            out += pattern(rnd, SIZE[c])
        return
    tp = b.templates[str(t["tid"])]
    buf = bytearray(pattern(rnd, tp["size"]))
    names = [m["name"] for m in tp["members"]]
    for m in tp["members"]:
        if m.get("bit") is not None:
            continue
        sub = bytearray()
        for _ in range(m["arr"] or 1):
            fill(b, m["type"], rnd, sub)
        buf[m["off"]:m["off"] + len(sub)] = sub
    if names[:2] == ["LEN", "DATA"] and len(names) == 2:
        cap = tp["members"][1]["arr"]
        ln = rnd.choice([0, 1, cap, rnd.randint(0, cap)])
        buf[0:4] = struct.pack("<I", ln)
        for i in range(cap):
            buf[4 + i] = rnd.choice([65, 97, 32, 0xE9, rnd.randint(1, 255)])
    out += bytes(buf)


def gen_project(rnd, n_tags=12, programs=1, junk=True, big_tags=None, iid_base=None, wide=None, twin=False, huge=False):
    b = Builder(rnd)
    symbols, mem = [], {}
    # types
    s82 = b.string_type(82, "STRING")
    strs = [s82, b.string_type(rnd.choice([1, 5, 20, 40, 200]))]
    inner = b.udt("Inner", [("x", atomic(0xC3), 0), ("f0", atomic(0xC1), 0), ("f1", atomic(0xC1), 0), ("v", atomic(0xCA), 0)])
    flat = b.udt("Flat", [("b0", atomic(0xC1), 0), ("b1", atomic(0xC1), 0), ("a", atomic(0xC3), 0), ("c", atomic(0xC4), 2),
                          ("s", atomic(0xC2), 3), ("b2", atomic(0xC1), 0), ("l", atomic(0xC5), 0), ("d", atomic(0xCB), 0)])
    nine = b.udt("Nine", [("q%d" % i, atomic(0xC1), 0) for i in range(9)] + [("w", atomic(0xC7), 0), ("Control", atomic(0xC3), 0), ("CTL", atomic(0xC2), 0)])   # names that are hidden in predefined types only
    in12 = b.udt("In12", [("x", atomic(0xC3), 0), ("v", atomic(0xCA), 0), ("d", atomic(0xC4), 0)])          # 12 bytes, no BOOLs
    outer = b.udt("Outer", [("id", atomic(0xC4), 0), ("in1", inner, 0), ("arr", inner, 3), ("name", strs[1], 0), ("flags", atomic(0xD3), 2),
                            ("ok", atomic(0xC1), 0)])
    deep = b.udt("Deep", [("o", outer, 0), ("n", atomic(0xC2), 0), ("os", outer, 2)])
    # look-alikes of string types: LEN / DATA members that are not a SINT array
    fake1 = b.udt("NotStr1", [("LEN", atomic(0xC4), 0), ("DATA", atomic(0xC3), rnd.choice([4, 16]))])
    fake2 = b.udt("NotStr2", [("LEN", atomic(0xC4), 0), ("DATA", atomic(0xC2), 0)])
    udts = [inner, flat, nine, outer, deep, fake1, fake2]
    widet = None
    if wide if wide is not None else rnd.random() < 0.25:
        # a structure whose definition is larger than a small connection can carry in one reply
        nm = rnd.choice([30, 60, 130])
        codes = [0xC1, 0xC2, 0xC3, 0xC4, 0xC1, 0xCA, 0xC1]
        widet = b.udt("Wide", [("Member_%02d_%s" % (j, "n" * rnd.randint(0, 24)), atomic(codes[(j * 5 + nm) % len(codes)]), 0) for j in range(nm)])
        udts.append(widet)
    twint = None
    if twin:
        # a structure that a later program download redefines with the same member names, offsets and size but other types
        twint = b.udt("Twin", [("a", atomic(0xC4), 0), ("b", atomic(0xCA), 0), ("n", atomic(0xC3), 0), ("u", atomic(0xC7), 0), ("t", strs[1], 0)])
        udts.append(twint)
    iid = iid_base if iid_base is not None else rnd.choice([1, 200, 250, 65500, 70000])

    def add(name, t, dims, scope="", kind="tag", **kw):
        nonlocal iid
        iid += rnd.choice([1, 1, 2, 5])
        s = {"name": name, "iid": iid, "scope": scope, "kind": kind, "type": t, "dims": (list(dims) + [0, 0, 0])[:3],
             "sc": rnd.choice([0x04000000, 0x04000001, 0x00000000]) if kind == "tag" else 0, "access": rnd.choice([0, 0, 1, 2]) if kind == "tag" else 0}
        s.update(kw)
        symbols.append(s)
        if kind == "tag":
            n = 1
            for d in dims:
                n *= d or 1
            out = bytearray()
            for _ in range(n):
                fill(b, t, rnd, out)
            mem[scope + "|" + name] = list(out)
        return s

    atom_names = list(ATOMS)
    for i in range(n_tags):
        k = rnd.randint(0, 9)
        nm = rnd.choice(["T", "Tag", "x", "Valve_Open", "M", "LongTagName_abcdefghijklmnopqrstuvwxyz_40"]) + "%d" % i
        if k <= 2:
            code = ATOMS[rnd.choice(atom_names)]
            s = add(nm, atomic(code), [])
            if code == 0xC1 and rnd.random() < 0.6:
                s["bitpos"] = rnd.randint(1, 7)          # a BOOL tag packed at a non-zero bit position
        elif k == 3:
            code = ATOMS[rnd.choice([a for a in atom_names if a != "BOOL"])]
            add(nm, atomic(code), [rnd.randint(1, 12)])
        elif k == 4:
            code = ATOMS[rnd.choice(["INT", "DINT", "REAL", "SINT"])]
            add(nm, atomic(code), rnd.choice([[2, 3], [3, 2, 2], [4, 1], [2, 2, 3]]))
        elif k == 5:
            add(nm, atomic(0xD3), [rnd.choice([1, 2, 3, 4])])                      # BOOL[32n]
        elif k == 6:
            add(nm, rnd.choice(strs), rnd.choice([[], [], [3]]))
        elif k == 7:
            add(nm, rnd.choice(udts), [])
        elif k == 8:
            add(nm, rnd.choice([inner, flat, outer]), [rnd.randint(1, 4)])
        else:
            add(nm, rnd.choice(udts + strs), rnd.choice([[], [2]]))
    if n_tags >= 5 and rnd.random() < 0.6:
        for j in range(rnd.choice([1, 3])):
            add("PackedBit%d" % j, atomic(0xC1), [])["bitpos"] = rnd.randint(1, 7)
    if huge:
        # a structure larger than 64 KiB: member offsets need all 32 bits
        huget = b.udt("Huge", [("pad", atomic(0xC4), 17000), ("flag", atomic(0xC1), 0), ("tail", atomic(0xC4), 0), ("tl", atomic(0xC3), 3)])
        add("HugeTag", huget, [])
    if widet is not None:
        add("WideTag", widet, [])
    if twint is not None:
        add("TwinTag", twint, [])
        add("TwinArr", twint, [2])
        add("PlainD", atomic(0xC4), [])
    named = {"Inner": inner, "Flat": flat, "Outer": outer, "Nine": nine, "STRING": s82, "Str": strs[1], "In12": in12}
    for spec in (big_tags or []):
        t = named[spec["udt"]] if "udt" in spec else spec["type"] if "type" in spec else atomic(spec["code"])
        add(spec["name"], t, spec["dims"])
    progs = ["Prog_odd", "Main", "P2"][:programs]      # the first name begins with letters of "Program:" (prefix vs character-set handling)
    for p in progs:
        add("Program:" + p, atomic(0), [], kind="program", typeword=0x68)
    if programs and rnd.random() < 0.3:
        add("Program:Empty", atomic(0), [], kind="program", typeword=0x68)       # a program without tags or routines
    if junk:
        add("Task:T1", atomic(0), [], kind="task", typeword=0x70)
        add("Map:Local", atomic(0), [], kind="map", typeword=0x69)
        add("Cxn:Standard:abc", atomic(0), [], kind="map", typeword=0x7E)
        add("__DEFVAL_00001234", atomic(0xC4), [], kind="system", typeword=0xC4)
        add("Hidden9", atomic(0xC4), [], sysflag=1)
        add("__Local:9:I", inner, [], kind="system", typeword=0x8000 + inner["tid"])      # system symbols that look like module tags
        add("__Rack:C", atomic(0xC4), [], kind="system", typeword=0xC4)
        add("Local:1:I", inner, [])                                                # module I/O tag (kept)
        add("Rack:O", flat, [])
    for p in progs:
        base = iid
        iid = rnd.choice([0, 3, 300])
        add("Routine:MainRoutine", atomic(0), [], scope=p, kind="routine", typeword=0x6D)
        add("pt_dint", atomic(0xC4), [], scope=p)
        add("pt_arr", atomic(0xC3), [5], scope=p)
        add("pt_udt", flat, [], scope=p)
        add("pt_str", s82, [], scope=p)
        iid = base
    proj = {"name": rnd.choice(["PROG1", "Line_7", "X"]), "templates": b.templates, "symbols": symbols}
    return proj, mem, b


def small_project(rnd):
    proj, mem, _ = gen_project(rnd, n_tags=3, programs=1, junk=False)
    return proj, mem


def redownload(proj, mem, rnd):
    """The project after a new program download: the same tag names, but the Twin structure has its DINT / REAL (and INT /
    UINT) members exchanged behind the same template id, every symbol got another instance id, and the memory of the
    redefined tags is new.  -> (project, mem)"""
    import copy
    p2, m2 = copy.deepcopy(proj), copy.deepcopy(mem)
    swap = {0xC4: 0xCA, 0xCA: 0xC4, 0xC3: 0xC7, 0xC7: 0xC3}
    twin_tid = None
    for tid, tp in p2["templates"].items():
        if tp["name"] == "Twin":
            twin_tid = int(tid)
            for m in tp["members"]:
                if m["type"]["k"] == "atomic" and m["type"]["code"] in swap:
                    m["type"] = atomic(swap[m["type"]["code"]])
            tp["handle"] = (tp["handle"] * 7 + 11) % 65521 + 1
    delta = rnd.choice([1, 2, 9])
    for s in p2["symbols"]:
        s["iid"] += delta

    class _B:                                    # just enough of Builder for fill()
        templates = p2["templates"]
    for s in p2["symbols"]:
        if s["kind"] == "tag" and s["type"]["k"] == "struct" and s["type"]["tid"] == twin_tid:
            n = 1
            for d in s["dims"]:
                n *= d or 1
            out = bytearray()
            for _ in range(n):
                fill(_B, s["type"], rnd, out)
            m2[s["scope"] + "|" + s["name"]] = list(out)
    return p2, m2
