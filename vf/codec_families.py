"""Event families for the codec properties.  Each family appends events to a Recorder by calling the real classes."""
import struct

from . import codecgen as g


def _int_patterns(w, rnd, n):
    pats = {bytes(w), b"\xff" * w, b"\x80" + bytes(w - 1), bytes(w - 1) + b"\x80", b"\x7f" + b"\xff" * (w - 1),
            b"\xff" * (w - 1) + b"\x7f", bytes(range(1, w + 1))}
    for i in range(8 * w):
        pats.add((1 << i).to_bytes(w, "little"))
    while len(pats) < n:
        pats.add(bytes(rnd.getrandbits(8) for _ in range(w)))
    return sorted(pats)


def fam_elementary(rec, rnd, thorough):
    """C07: encodings / decodings of every elementary type; exhaustive for 1- and 2-byte types."""
    ints = [g.d_int(w, s) for (w, s) in g.INT_NAMES] + [g.d_int(w, s, n) for n, (w, s) in g.INT_ALIASES.items()]
    for t in ints:
        lo, hi = g.int_range(t)
        primary = t["cls"] in g.INT_NAMES.values()
        if t["w"] == 1:
            vals = range(lo, hi + 1)
        elif t["w"] == 2:
            vals = range(lo, hi + 1) if (thorough and primary) else sorted(set(list(range(lo, hi + 1, 97 if primary else 1013)) + g.int_values(t, rnd, 80)))
        else:
            vals = g.int_values(t, rnd, 200 if thorough else 90)
        for v in vals:
            rec.enc(t, v, "int-enc")
        if t["w"] == 1:
            pats = [bytes([b]) for b in range(256)]
        elif t["w"] == 2:
            pats = [struct.pack("<H", x) for x in (range(65536) if (thorough and primary) else range(0, 65536, 89 if primary else 977))]
            pats += [b"\xff\xff", b"\x00\x80", b"\xff\x7f"]
        else:
            pats = _int_patterns(t["w"], rnd, 200 if thorough else 80)
        for p in pats:
            rec.dec(t, p, "int-dec")
    t = g.d_bool()
    for v in (True, False, 0, 1, 2, -1, 255):
        rec.enc(t, v, "bool-enc")
    for b in range(256):
        rec.dec(t, bytes([b]), "bool-dec")
    for w in (4, 8):
        t = g.d_real(w)
        for v in g.float_values(rnd, 1500 if thorough else 350, w):
            rec.enc(t, v, "real-enc")
        pats = _int_patterns(w, rnd, 600 if thorough else 200)
        pats += [struct.pack("<f" if w == 4 else "<d", x) for x in (float("nan"), float("inf"), float("-inf"), 5e-324 if w == 8 else 1e-45, -0.0)]
        pats += [b"\x01\x00\x80\x7f", b"\xff\xff\x7f\x00"] if w == 4 else [b"\x01" + bytes(5) + b"\xf0\x7f", b"\xff" * 6 + b"\x0f\x00"]
        for p in pats:
            rec.dec(t, p, "real-dec")
    for t in (g.d_bits(1), g.d_bits(2), g.d_bits(4), g.d_bits(8), g.d_bits(2, "ENGUNIT")):
        w = t["w"]
        pats = [bytes([b]) for b in range(256)] if w == 1 else _int_patterns(w, rnd, 120 if thorough else 60)
        for p in pats:
            rec.dec(t, p, "bits-dec")
            v = [bool(p[i // 8] >> (i % 8) & 1) for i in range(8 * w)]
            rec.enc(t, v, "bits-enc")
    t = g.d_dt()
    for _ in range(40):
        rec.enc(t, g.gen_value(t, rnd), "dt-enc")
        rec.dec(t, bytes(rnd.getrandbits(8) for _ in range(6)), "dt-dec")
    t = g.d_ip()
    for _ in range(60):
        rec.enc(t, g.gen_value(t, rnd), "ip-enc")
        rec.dec(t, bytes(rnd.getrandbits(8) for _ in range(4)), "ip-dec")
    for v in ("0.0.0.0", "255.255.255.255", "1.2.3.4", "10.20.30.100", "192.168.1.1"):
        rec.enc(t, v, "ip-enc")


def fam_bits_cross(rec, rnd, thorough):
    """C06: the same integer decoded as bit strings of different widths, one after the other (each width yields its own
    number of bits whatever another width decoded before)."""
    widths = [g.d_bits(1), g.d_bits(2), g.d_bits(4), g.d_bits(8), g.d_bits(2, "ENGUNIT")]
    for val in [0, 1, 5, 0x80, 0xFF, rnd.randint(0, 255)]:
        for order in (widths, list(reversed(widths))):
            for t in order:
                raw = val.to_bytes(t["w"], "little")
                rec.dec(t, raw, "bits-cross-width")
                rec.stream(t, raw, b"\x01", "bits-cross-width-stream")


def fam_strings(rec, rnd, thorough):
    """C06/C07: every prefix width / character width, every length up to the 1-byte prefix limit."""
    t = g.d_str(1, 1)
    for n in range(256):
        v = g.text(rnd, n)
        raw = rec.rt(t, v, "shortstring-len")
        if raw is not None and (n % 16 == 0 or thorough):
            rec.enc(t, v, "str-enc")
            rec.dec(t, raw, "str-dec")
            rec.stream(t, raw, b"\x01\x02\x03", "str-stream")
    for (lw, cw) in ((2, 1), (4, 1), (2, 2)):
        t = g.d_str(lw, cw)
        lens = [0, 1, 2, 3, 7, 82, 255, 256, 257, 1000] + ([4000, 65535] if thorough and cw == 1 else [])
        for n in lens:
            for alpha in (["latin1"] if cw == 1 else ["bmp", "astral"]):
                v = g.text(rnd, n, alpha)
                raw = rec.rt(t, v, "str-len")
                rec.enc(t, v, "str-enc")
                if raw is not None:
                    rec.dec(t, raw, "str-dec")
                    rec.stream(t, raw, b"\xaa\xbb", "str-stream")
    t = g.d_stringn()
    for cw, alpha in ((1, "ascii"), (2, "bmp"), (4, "astral"), (4, "bmp"), (1, "latin1"), (2, "astral")):
        for n in (0, 1, 2, 5, 33, 255, 256):
            v = (g.text(rnd, n, alpha), cw)
            raw = rec.rt(t, v, "stringn")
            rec.enc(t, v, "stringn-enc")
            if raw is not None:
                rec.dec(t, raw, "stringn-dec")
                rec.stream(t, raw, b"\x09", "stringn-stream")
    for cap in (1, 2, 5, 20, 82, 200):
        t = g.d_fixedstr(cap)
        for n in sorted({0, 1, cap // 2, cap - 1, cap, cap + 1, cap + 2}):
            if n < 0:
                continue
            v = g.text(rnd, n)
            raw = rec.rt(t, v, "fixedstr")
            rec.enc(t, v, "fixedstr-enc")
            if raw is not None and n <= cap:
                rec.dec(t, raw, "fixedstr-dec")
                rec.stream(t, raw, b"\x07\x07", "fixedstr-stream")
        # the Logix string form: the character area is padded beyond the capacity; longer values are cut to the capacity
        pad = (4 - cap % 4) % 4 or 4
        tp = g.d_fixedstr(cap + pad, 4, capn=cap)
        for n in sorted({0, cap - 1, cap, cap + 1, cap + pad, cap + pad + 1, cap + 7}):
            if n < 0:
                continue
            v = g.text(rnd, n)
            rec.enc(tp, v, "logix-string-enc")
            if n <= cap:
                raw = rec.rt(tp, v, "logix-string")
        # LEN field larger than the capacity, arbitrary padding bytes
        for ln in (cap, cap + 1, 1000):
            data = struct.pack("<I", ln) + bytes(rnd.randint(1, 255) for _ in range(cap))
            rec.dec(t, data, "fixedstr-len>cap")


def do_enc(rec, t, v):
    from .codec_engine import do_encode
    return do_encode(rec.typ(t), t, v)


def fam_composites(rec, rnd, thorough, n_types):
    """C06: random descriptor trees: round trip, stream consumption, dict == positional."""
    # unnamed (reserved) members are left out of the value but take exactly their wire size
    for el in g.elementary_alphabet() + [g.d_fixedstr(8, 4, capn=6), g.d_arr("fixed", g.d_int(2, 1), n=3),
                                          g.d_struct([("p", g.d_int(1, 0)), ("q", g.d_str(1, 1))])]:
        if el["k"] == "nbytes" and el["n"] == -1:
            continue
        for _ in range(2):
            ve, vx = g.gen_value(el, rnd), rnd.randint(-30000, 30000)
            _, raw_e = do_enc(rec, el, ve)
            if raw_e is None:
                continue
            t = g.d_struct([("h", g.d_int(1, 0)), ("", el), ("x", g.d_int(2, 1))])
            data = bytes([7]) + raw_e + struct.pack("<h", vx)
            rec.dec(t, data, "unnamed-member")
            rec.stream(t, data, b"\x11\x22", "unnamed-member-stream")
    for i in range(n_types):
        t = g.random_type(rnd, rnd.choice([1, 2, 2, 3, 3, 4] if thorough else [1, 2, 2, 3]))
        for _ in range(3):
            v = g.gen_value(t, rnd)
            raw = rec.rt(t, v, "composite-rt")
            rec.enc(t, v, "composite-enc")
            rec.enc_kept(t, v, g.gen_value(t, rnd), "composite-enc-kept")
            if raw is None:
                continue
            greedy = _greedy(t)
            if not (t["k"] == "arr" and t["lk"] == "derived"):
                rec.dec(t, raw, "composite-dec")
                if not greedy:
                    rec.stream(t, raw, bytes(rnd.getrandbits(8) for _ in range(rnd.randint(1, 5))), "composite-stream")
            if t["k"] == "struct":
                rec.dictpos(t, v, g.positional(t, v), "composite-dictpos")
                rec.dictpos(t, g.reordered(v, rnd), g.positional(t, v), "composite-dict-reordered")
                rec.rt(t, g.reordered(v, rnd), "composite-rt-reordered")
    # arrays of every elementary type in the three length kinds
    for el in g.element_alphabet():
        for lk in ("fixed", "derived", "unbounded"):
            for n in (0, 1, 3):
                t = g.d_arr(lk, el, n=n, lt=g.d_int(rnd.choice([1, 2, 4]), 0))
                v = g.gen_value(t, rnd, 3)
                if lk != "fixed":
                    if el["k"] == "bits":
                        v = v[: 8 * el["w"] * n] if len(v) >= 8 * el["w"] * n else v
                    else:
                        v = [g.gen_value(el, rnd) for _ in range(n)]
                raw = rec.rt(t, v, "array-rt")
                if raw is not None and lk != "derived":
                    rec.dec(t, raw, "array-dec")
                if lk == "fixed" and el["k"] != "bits":
                    longer = list(v) + [g.gen_value(el, rnd)]
                    rec.rt(t, longer, "array-overlong")
                    rec.enc(t, longer, "array-overlong")
                if lk == "fixed" and el["k"] == "bits":
                    longer = list(v) + [True] * (8 * el["w"])
                    rec.rt(t, longer, "array-overlong")


def _greedy(t):
    if t["k"] == "arr":
        return t["lk"] == "unbounded" or _greedy(t["el"])
    if t["k"] == "nbytes":
        return t["n"] == -1
    if t["k"] == "struct":
        return any(_greedy(m["t"]) for m in t["m"])
    return False


def fam_structtag(rec, rnd, thorough, n_types):
    """C07:struct-layout: generated Logix templates (offsets, packed BOOL members, hidden hosts, padding)."""
    for _ in range(n_types):
        t = g.random_structtag(rnd, 1)
        for _ in range(3):
            v = g.gen_value(t, rnd)
            raw = rec.rt(t, v, "structtag-rt")
            rec.enc(t, v, "structtag-enc")
            rec.enc_kept(t, v, g.gen_value(t, rnd), "structtag-enc-kept")
            data = bytes(rnd.getrandbits(8) for _ in range(t["size"]))
            rec.dec(t, data, "structtag-dec")
            rec.stream(t, data, b"\x55\x66", "structtag-stream")
        arr = g.d_arr("fixed", t, n=2)
        rec.rt(arr, [g.gen_value(t, rnd), g.gen_value(t, rnd)], "structtag-array")


def fam_failures(rec, rnd, thorough, n_types):
    """C08: out-of-domain values, every truncation point of valid encodings, random bytes, the empty buffer."""
    types = g.elementary_alphabet()
    for _ in range(n_types):
        types.append(g.random_type(rnd, rnd.choice([1, 2, 3])))
    for _ in range(max(4, n_types // 6)):
        types.append(g.random_structtag(rnd, 1))
    for el in (g.d_int(2, 1), g.d_str(2, 1), g.d_struct([("a", g.d_int(2, 0)), ("b", g.d_int(2, 0))]), g.d_bits(4),
               g.d_fixedstr(4), g.d_struct([("a", g.d_int(1, 0)), ("s", g.d_str(1, 1))])):
        types.append(g.d_arr("unbounded", el))
        types.append(g.d_arr("fixed", el, n=3))
        types.append(g.d_arr("derived", el, lt=g.d_int(1, 0)))
    # unbounded arrays whose elements take no bytes: decoding must end (DataError), over empty and non-empty buffers
    for el in (g.d_arr("fixed", g.d_int(2, 0), n=0), g.d_nbytes(0), g.d_struct([("z", g.d_arr("fixed", g.d_int(1, 0), n=0))]),
               g.d_arr("fixed", g.d_struct([("a", g.d_int(4, 1))]), n=0)):
        zt = g.d_arr("unbounded", el)
        for buf in (b"", b"\x00", b"\x01\x02\x03", bytes(rnd.getrandbits(8) for _ in range(rnd.randint(1, 9)))):
            rec.dec(zt, buf, "zero-size-elements")
        zs = g.d_struct([("h", g.d_int(1, 0)), ("tail", zt)])
        rec.dec(zs, b"\x07\x08\x09", "zero-size-elements")
    # STRINGN headers with a character size that does not exist, for every count incl. zero
    for cw in (0, 3, 5, 8, 255, 65535):
        for n in (0, 1, 2):
            rec.dec(g.d_stringn(), struct.pack("<HH", cw, n) + b"abcdefgh"[:n * min(cw, 4)], "stringn-bad-char-size")
    for t in types:
        for label, v in g.bad_values(t, rnd):
            rec.enc(t, v, "bad:" + label)
        rec.dec(t, b"", "empty-buffer")
        # truncations of valid encodings
        if t["k"] == "stringn" and not t.get("nested"):       # every character width, never the empty string
            vals = [(g.text(rnd, rnd.randint(2, 9), {1: "ascii", 2: "bmp", 4: "astral"}[cw]), cw) for cw in (1, 2, 4)]
        else:
            vals = [g.gen_value(t, rnd) for _ in range(2)]
        for v in vals:
            if t["k"] == "arr" and t["lk"] != "fixed" and len(v) == 0:
                v = g.gen_value(t, rnd)
            typ = rec.typ(t)
            try:
                raw = typ.encode(*v) if t["k"] in ("dt", "stringn") else typ.encode(v)
                raw = bytes(raw)
            except Exception:
                continue
            if t["k"] == "arr" and t["lk"] == "derived":
                n = len(v) // (8 * t["el"]["w"]) if t["el"]["k"] == "bits" else len(v)
                raw = n.to_bytes(t["lt"]["w"], "little") + raw
            cuts = range(len(raw)) if len(raw) <= 48 else sorted(set(rnd.sample(range(len(raw)), 40)) | {0, 1, 2, 3, 4, len(raw) - 1})
            for c in cuts:
                rec.dec(t, raw[:c], "truncated")
            rec.dec(t, raw, "whole")
        for _ in range(3):
            junk = bytes(rnd.getrandbits(8) for _ in range(rnd.randint(1, 12)))
            if t["k"] == "arr" and t["lk"] == "derived":       # keep the element count of the prefix small
                junk = rnd.randint(0, 6).to_bytes(t["lt"]["w"], "little") + junk
            rec.dec(t, junk, "random-bytes")


def fam_codes(rec, rnd):
    """C07:code: DataTypes[code] / get_type(code) for every code, probed by value through the reference's table."""
    from pycomm3.cip import DataTypes
    probes = {1: [0, 1, 127, 128, 255, -1, -128], 2: [0, 1, 255, 256, 32767, 32768, 65535, -1, -32768],
              4: [0, 1, 65536, 2 ** 31 - 1, 2 ** 31, 2 ** 32 - 1, -1, -2 ** 31], 8: [0, 1, 2 ** 63 - 1, 2 ** 63, 2 ** 64 - 1, -1, -2 ** 63]}
    for code in range(256):
        try:
            typ = DataTypes.get_type(code)
        except Exception:
            typ = None
        if typ is None:
            rec.code(code, None, "absent", None, "code-absent")
            continue
        size = getattr(typ, "size", 0)
        name = getattr(typ, "__name__", "")
        if code in (0xC1,):
            payloads = [True, False]
        elif code in (0xCA, 0xCB):
            payloads = [0.0, 1.5, -2.75, 1e10]
        elif code in (0xD0, 0xDA, 0xD5):
            payloads = ["", "a", "hello"]
        elif code == 0xD9:
            payloads = [("ab", 1), ("ab", 2)]
        elif code in (0xD1, 0xD2, 0xD3, 0xD4, 0xDD):
            w = {0xD1: 1, 0xD2: 2, 0xD3: 4, 0xD4: 8, 0xDD: 2}[code]
            payloads = [[bool((i * 5 + 1) % 3 == 0) for i in range(8 * w)], [i == 8 * w - 1 for i in range(8 * w)]]
        elif code == 0xCF:
            payloads = [(1, 2), (2 ** 32 - 1, 65535)]
        else:
            payloads = []
        if 0xC2 <= code <= 0xC9 or code in (0xCC, 0xCD, 0xCE, 0xD6, 0xD7, 0xD8, 0xDB):
            w = {0xC2: 1, 0xC3: 2, 0xC4: 4, 0xC5: 8, 0xC6: 1, 0xC7: 2, 0xC8: 4, 0xC9: 8, 0xCC: 4, 0xCD: 2, 0xCE: 4,
                 0xD6: 4, 0xD7: 8, 0xD8: 2, 0xDB: 4}[code]
            payloads = probes[w]
            for p in _int_patterns(w, rnd, 12):
                rec.code(code, typ, "dec", p, "code-dec")
        for p in payloads:
            rec.code(code, typ, "enc", p, "code-enc")
