"""Writes /verif/MANIFEST.json from the table below (kept in code so it always validates)."""
import json
import os

HOME = os.path.dirname(os.path.dirname(os.path.abspath(__file__)))

# pid -> (engine, level text, level note, technique, design ref)
CLAIMED = {
    "C19": ("enum",
            "TLC checks the lookup semantics (EnumMap.tla) on every small table incl. case and code collisions (R1), then "
            "judges every recorded lookup of every exported table of the real library against that semantics (R3, "
            "TraceEnum.tla); the domain is finite and is enumerated completely.",
            "Trusted: TLC/SANY, the transcription of 'case-insensitive bidirectional table' into EnumMap.tla, member lists "
            "read from each class's own __dict__, status tables exported as data.",
            "TLA+ lookup semantics model-checked with TLC + exhaustive trace validation of recorded lookups", "5/C19"),
    "C12": ("socket",
            "SocketIO.tla (contract + the receive/send loops as written) is model-checked exhaustively for every chunk "
            "composition, EOF and error position of frames with bodies 0..8 (real header/read size) and of a scaled instance "
            "whose read size is below the header size, incl. termination under fairness (R1); TLC then enumerates every "
            "schedule of <= 3 calls with every fault position (R2) and each, plus boundary-class schedules for frames up to "
            "65559 bytes, is executed by the real Socket over a scripted raw socket and judged by TraceSocket.tla (R3).",
            "Trusted: TLC, the scripted raw socket (vf/fakesock.py), byte equality of large frames computed by the harness. "
            "Only behaviours up to the explored schedules are covered for the implementation; the model result is exhaustive "
            "within its constants.",
            "TLA+ contract/design model checked with TLC; TLC-generated schedules replayed into the code; recorded executions validated against the spec", "5/C12"),
    "C06": ("codec",
            "The reference codec CipTypes.tla is model-checked on a small type/value alphabet (round trip, exact consumption "
            "with junk, dict = positional, truncation to fixed length, injectivity: CodecModel.tla, R1).  Recorded "
            "encode/decode calls of the real classes (every SHORT_STRING length, string/array kinds, seeded descriptor trees, "
            "Logix templates) are judged by TraceCodec.tla: decode(encode(v)) must equal the reference's normal form of v, "
            "stream position must equal the reference's consumed length, dict and positional bytes must agree (R3).",
            "Trusted: TLC, the transcription of CIP Vol 1 app. C into CipTypes.tla, vf/values.py, the descriptor->class table. "
            "Inputs are explored (exhaustive only for small domains), not proved for all 2^64 values / all type trees.",
            "TLA+ reference codec model-checked with TLC + trace validation of recorded codec calls", "5/C06"),
    "C07": ("codec",
            "Same engine as C06 with the stronger clause: real encode(v) must equal the reference encoding byte for byte and "
            "real decode must equal the reference decoding for every byte pattern (all 1-byte values/patterns, all 2-byte ones in "
            "the thorough tier, boundary/bit/random incl. NaN, infinities, denormals, float32 ties for 4/8-byte types), every "
            "type code probed by value through the reference's own code table, generated template layouts.",
            "Trusted: as C06.  The format is stated positively in TLA+ (endianness, BOOL 0x00/0xFF, bit 0 first, prefix widths), "
            "so a symmetric error in the library cannot cancel.",
            "TLA+ reference codec (IEEE-754, two's complement, UTF-16 in TLA+) + trace validation of recorded codec calls", "5/C07"),
    "C08": ("codec",
            "The reference classifies every input: in / out / unspecified domain for encode; ok / empty / inner / short / "
            "malformed for decode (TruncationClassified is model-checked on the reference).  Recorded calls with every ill-typed "
            "value class, every truncation point of valid encodings, random bytes and the empty buffer must fail exactly as "
            "the class demands: DataError (BufferEmptyError only at a value start), never a foreign exception, a silent value "
            "or a call exceeding the time budget.",
            "Trusted: as C06; non-termination is detected as 'no return within 5 s'. Zero-width element types are outside the domain.",
            "TLA+ reference classification + trace validation of recorded failing codec calls", "5/C08"),
    "C09": ("path",
            "EPath.tla states the padded-EPATH format as a canonical encoder and a STRICT parser (reserved format bits, "
            "non-zero pads, odd lengths, wrong word counts rejected); PathModel.tla shows by exhaustive TLC search that the parser "
            "inverts the encoder on every list of <= 2 segments over boundary values and rejects the malformations (R1).  Every "
            "path emitted by LogicalSegment / PortSegment / DataSegment / PADDED_EPATH.encode / request_path / tag_request_path "
            "for boundary-crossed inputs is parsed by that parser inside TLC and compared with the intended segment list (R3).",
            "Trusted: TLC, the transcription of CIP Vol 1 C-1 into EPath.tla, the intent construction in vf/props/c09.py "
            "(built from the generated structure, never by parsing the tag string with library code).",
            "TLA+ strict EPATH parser model-checked against the canonical encoder + trace validation of emitted paths", "5/C09"),
    "C15": ("path",
            "ConnPath.tla is an interpreter of the documented path grammar over code points (separator normalisation, host:port, "
            "port aliases, slot / IPv4 links, driver shortcuts, the stated rejection set, and an explicit 'unspecified' class); "
            "ConnPathModel.tla checks with TLC that all spellings of a 0-2 hop route have one meaning and that the rejection "
            "classes are rejected (R1).  parse_connection_path + PADDED_EPATH.encode are run on grammar enumerations and single-"
            "edit corruptions; TLC interprets each string, strictly parses the route bytes and compares (R3).",
            "Trusted: TLC, ConnPath.tla as the reading of the documentation; upper-case names, numeric ports 0/>=15, IPv6, empty "
            "tokens, white space are 'unspec'.  The route as seen by a target in Forward Open is covered by C10/C14 sessions.",
            "TLA+ grammar interpreter model-checked with TLC + trace validation of recorded parses", "5/C15"),
}

PENDING_REASON = "check not built yet in this round (construction order in DESIGN.md section 9); no claim is made"


def build():
    props = [json.loads(l) for l in open(os.path.join(HOME, "properties.jsonl"))]
    checks, na = [], []
    for p in props:
        pid = p["id"]
        if pid in CLAIMED:
            eng, text, note, tech, ref = CLAIMED[pid]
            checks.append({
                "property_id": pid,
                "quick_cmd": "./check %s --tier quick" % pid,
                "thorough_cmd": "./check %s --tier thorough" % pid,
                "evidence_file": "/verif/evidence/%s.json" % pid,
                "replay_cmd_template": "./check %s --replay {path}" % pid,
                "engine": eng,
                "level_claimed": {"category": "model_checking", "text": text, "design_ref": "DESIGN.md section " + ref},
                "level_note": note,
                "technique": tech,
            })
        else:
            na.append({"property_id": pid, "reason": PENDING_REASON})
    man = {
        "version": 1,
        "setup_cmd": "./setup.sh",
        "hooks": {"guard": "PYCOMM3_VERIF", "enable": "no hooks are needed: socket.socket is replaced by a scripted fake "
                  "and only public API is called (guard name reserved)",
                  "baseline_off_cmd": "cd /repo && /venv/bin/python -m pytest tests/offline -q -p no:cacheprovider",
                  "source_commits": [], "add_only": True},
        "engines": [
            {"name": "enum", "path": "spec/EnumMap.tla spec/EnumMapModel.tla spec/TraceEnum.tla vf/props/c19.py",
             "serves_properties": ["C19"], "kind_free_text": "TLA+ semantics + TLC trace validation of recorded lookups"},
            {"name": "codec", "path": "spec/Bytes.tla spec/Ieee754.tla spec/Unicode.tla spec/CipTypes.tla spec/CodecModel.tla "
             "spec/TraceCodec.tla vf/codecgen.py vf/codec_engine.py vf/codec_families.py vf/props/c06.py c07.py c08.py",
             "serves_properties": ["C06", "C07", "C08"], "kind_free_text": "TLA+ reference codec; sharded TLC trace validation"},
            {"name": "path", "path": "spec/EPath.tla spec/ConnPath.tla spec/PathModel.tla spec/ConnPathModel.tla spec/TracePath.tla "
             "vf/props/c09.py vf/props/c15.py", "serves_properties": ["C09", "C15"],
             "kind_free_text": "TLA+ strict EPATH parser and path-grammar interpreter; TLC trace validation"},
            {"name": "socket", "path": "spec/SocketIO.tla spec/TraceSocket.tla vf/props/c12.py vf/fakesock.py",
             "serves_properties": ["C12"], "kind_free_text": "TLA+ model of the byte-stream loops; schedules from TLC replayed into Socket; trace validation"},
        ],
        "checks": checks,
        "not_applicable": na,
        "notes": "Model-based verification with an explicit TLA+ specification (spec/), see DESIGN.md.",
    }
    with open(os.path.join(HOME, "MANIFEST.json"), "w") as fh:
        json.dump(man, fh, indent=1)
    return man


if __name__ == "__main__":
    build()
