"""Writes /verif/MANIFEST.json from the table below (kept in code so it always validates)."""
import json
import os

HOME = os.path.dirname(os.path.dirname(os.path.abspath(__file__)))

# pid -> (engine, level text, level note, technique, design ref)
CLAIMED = {
    "C19": ("enum",
            "TLC checks the lookup semantics (EnumMap.tla) on every small table incl. case and code collisions (R1), then "
            "judges every recorded lookup of every exported table of the real library against that semantics (R3, "
            "TraceEnum.tla); the domain is finite and is enumerated completely.",
            "Trusted: TLC/SANY, the transcription of 'case-insensitive bidirectional table' into EnumMap.tla, member lists "
            "read from each class's own __dict__, status tables exported as data.",
            "TLA+ lookup semantics model-checked with TLC + exhaustive trace validation of recorded lookups", "5/C19"),
    "C12": ("socket",
            "SocketIO.tla (contract + the receive/send loops as written) is model-checked exhaustively for every chunk "
            "composition, EOF and error position of frames with bodies 0..8 (real header/read size) and of a scaled instance "
            "whose read size is below the header size, incl. termination under fairness (R1); TLC then enumerates every "
            "schedule of <= 3 calls with every fault position (R2) and each, plus boundary-class schedules for frames up to "
            "65559 bytes, is executed by the real Socket over a scripted raw socket and judged by TraceSocket.tla (R3).  Several "
            "receive() calls on one Socket (after a complete frame, after a mid-frame socket error; with and without a time-out "
            "argument) are part of the model (NextRecvCall / FreshCall) and of the generated behaviours (SocketIO_gen2.cfg).",
            "Trusted: TLC, the scripted raw socket (vf/fakesock.py), byte equality of large frames computed by the harness. "
            "Only behaviours up to the explored schedules are covered for the implementation; the model result is exhaustive "
            "within its constants.",
            "TLA+ contract/design model checked with TLC; TLC-generated schedules replayed into the code; recorded executions validated against the spec", "5/C12"),
    "C06": ("codec",
            "The reference codec CipTypes.tla is model-checked on a small type/value alphabet (round trip, exact consumption "
            "with junk, dict = positional, truncation to fixed length, injectivity: CodecModel.tla, R1).  Recorded "
            "encode/decode calls of the real classes (every SHORT_STRING length, string/array kinds, seeded descriptor trees, "
            "Logix templates) are judged by TraceCodec.tla: decode(encode(v)) must equal the reference's normal form of v, "
            "stream position must equal the reference's consumed length, dict and positional bytes must agree (R3).",
            "Trusted: TLC, the transcription of CIP Vol 1 app. C into CipTypes.tla, vf/values.py, the descriptor->class table. "
            "Inputs are explored (exhaustive only for small domains), not proved for all 2^64 values / all type trees.",
            "TLA+ reference codec model-checked with TLC + trace validation of recorded codec calls", "5/C06"),
    "C07": ("codec",
            "Same engine as C06 with the stronger clause: real encode(v) must equal the reference encoding byte for byte and "
            "real decode must equal the reference decoding for every byte pattern (all 1-byte values/patterns, all 2-byte ones in "
            "the thorough tier, boundary/bit/random incl. NaN, infinities, denormals, float32 ties for 4/8-byte types), every "
            "type code probed by value through the reference's own code table, generated template layouts.",
            "Trusted: as C06.  The format is stated positively in TLA+ (endianness, BOOL 0x00/0xFF, bit 0 first, prefix widths), "
            "so a symmetric error in the library cannot cancel.",
            "TLA+ reference codec (IEEE-754, two's complement, UTF-16 in TLA+) + trace validation of recorded codec calls", "5/C07"),
    "C08": ("codec",
            "The reference classifies every input: in / out / unspecified domain for encode; ok / empty / inner / short / "
            "malformed for decode (TruncationClassified is model-checked on the reference).  Recorded calls with every ill-typed "
            "value class, every truncation point of valid encodings, random bytes and the empty buffer must fail exactly as "
            "the class demands: DataError (BufferEmptyError only at a value start), never a foreign exception, a silent value "
            "or a call exceeding the time budget.",
            "Trusted: as C06; non-termination is detected as 'no return within 5 s'.  Unbounded arrays of zero-size elements, "
            "containers that are not sequences (set, dict, dict views) and every character width of STRINGN are directed cases.",
            "TLA+ reference classification + trace validation of recorded failing codec calls", "5/C08"),
    "C09": ("path",
            "EPath.tla states the padded-EPATH format as a canonical encoder and a STRICT parser (reserved format bits, "
            "non-zero pads, odd lengths, wrong word counts rejected); PathModel.tla shows by exhaustive TLC search that the parser "
            "inverts the encoder on every list of <= 2 segments over boundary values and rejects the malformations (R1).  Every "
            "path emitted by LogicalSegment / PortSegment / DataSegment / PADDED_EPATH.encode / request_path / tag_request_path "
            "for boundary-crossed inputs is parsed by that parser inside TLC and compared with the intended segment list (R3).  "
            "Routes and symbolic scopes as the TARGET receives them in real sessions (Forward Open, Unconnected Send with the "
            "configured route, module info of other slots and lost replies in between, reconnects, paged program-scope uploads) "
            "are parsed the same way inside TraceSession.tla (clauses C09:route-meaning, C09:meaning).",
            "Trusted: TLC, the transcription of CIP Vol 1 C-1 into EPath.tla, the intent construction in vf/props/c09.py "
            "(built from the generated structure, never by parsing the tag string with library code).",
            "TLA+ strict EPATH parser model-checked against the canonical encoder + trace validation of emitted paths", "5/C09"),
    "C15": ("path",
            "ConnPath.tla is an interpreter of the documented path grammar over code points (separator normalisation, host:port, "
            "port aliases, slot / IPv4 links, driver shortcuts, the stated rejection set, and an explicit 'unspecified' class); "
            "ConnPathModel.tla checks with TLC that all spellings of a 0-2 hop route have one meaning and that the rejection "
            "classes are rejected (R1).  parse_connection_path + PADDED_EPATH.encode are run on grammar enumerations and single-"
            "edit corruptions; TLC interprets each string, strictly parses the route bytes and compares (R3).",
            "Trusted: TLC, ConnPath.tla as the reading of the documentation; upper-case names, numeric ports 0/>=15, IPv6, empty "
            "tokens, white space are 'unspec'.  The route as seen by a target in Forward Open is covered by C10/C14 sessions.",
            "TLA+ grammar interpreter model-checked with TLC + trace validation of recorded parses", "5/C15"),

    "C01": ("session",
            "LogixTarget.tla / LogixView.tla specify the controller (project, memory image, path resolution, Read Tag / Read Tag "
            "Fragmented / Multiple Service Packet) and what read() must return (value by type descriptor through CipTypes, BOOL "
            "ranges, bits, type strings).  Transfer.tla and Grouping.tla model-check pycomm3's fragment / grouping decisions with "
            "the real overheads against the contract (R1).  Recorded LogixDriver sessions on generated projects are replayed by "
            "TLC: every reply of the reference target is recomputed from the spec, every read result compared with the spec's "
            "expectation (R3).",
            "Trusted: TLC, the transcription of Logix 5000 Data Access into LogixTarget.tla, the scripted socket/recorder.  The Python "
            "reference target is NOT trusted (every reply recomputed, mismatch = machinery failure).  Projects/requests are sampled.",
            "TLA+ controller + view specification; design models checked with TLC; recorded sessions validated against the spec", "5/C01"),
    "C02": ("session",
            "As C01 for writes: LogixView!ExpectWrite gives the bytes each request must put at its slice; after every write call TLC "
            "compares the specification's memory image (updated by replaying the recorded Write Tag / Write Tag Fragmented / "
            "Read-Modify-Write services) with the pre-call image patched by the expected effects of the requests reported truthy "
            "(effect, nothing outside, exactly once via the ledger of executed services); each write is followed by a read-back.",
            "Trusted: as C01.  Overlapping writes in one call are not generated (except several bits of one word).",
            "TLA+ controller memory model; recorded write sessions validated against the spec", "5/C02"),
    "C03": ("session",
            "ClientContract part of TraceSession/LogixView: result shape and count, order by position, names, invalid requests falsy "
            "with non-empty error, no exception, and isolation = every request is judged independently of its neighbours; "
            "Grouping.tla shows every sendable request lands in exactly one packet (R1); sessions mix valid/invalid requests at "
            "every position incl. long lists spanning packets (R3).  Tag.__bool__ truth table through TraceEnum.",
            "Trusted: as C01; which requests 'cannot succeed' is decided by the specification (LogixView), not by the harness.",
            "TLA+ contract on call results; recorded sessions validated against the spec", "5/C03"),
    "C04": ("session",
            "Transfer.tla: the fragment/group decision and fragment loops with real overheads and every target fragment length, "
            "checked exhaustively against FitsRequest / FitsReply / contiguous offsets / exact cover (+ termination in the thorough "
            "config) (R1).  R3: every connected frame of every session is checked against the size granted at Forward Open, every "
            "fragment offset against the bytes transferred so far, with window sessions covering all sizes around 500/4000 and "
            "their multiples for several element widths and target capacities.",
            "Trusted: as C01; the connection size counts the connected data item including its sequence count.",
            "TLA+ transfer design model checked with TLC; per-frame contract checked on recorded sessions", "5/C04"),
    "C05": ("session",
            "LogixTarget.tla specifies the Symbol object (paged Get Instance Attribute List) and Template object (attributes, "
            "fragmented read, member records, names) and LogixView!UploadClause what tags / data_types / programs / tasks must "
            "contain; sessions upload generated projects (all symbol categories, sparse ids, nested UDTs, strings and look-alikes) "
            "under three pagination/fragmentation schedules per project and several firmware generations; a refused symbol-list page, "
            "a structure definition larger than one reply, an empty program, and a second upload after a program download "
            "(same template id redefined, instance ids renumbered; also after an upload that failed half-way), a structure larger than "
            "64 KiB and BOOL tags at non-zero bit positions are part of the families; the codec built for each uploaded "
            "type must take exactly the structure's bytes.",
            "Trusted: as C01; external access compared only for firmware >= 18.",
            "TLA+ symbol/template object specification; recorded uploads validated against the spec", "5/C05"),
    "C10": ("session",
            "Lifecycle.tla transcribes open/close/forward open with fall-back/forward close/unregister step by step (each raw send "
            "and receive may fail or find the peer gone) and is model-checked against the contract for every history of 6 calls x 4 "
            "target policies x every fault position incl. termination (R1); TLC prints every behaviour of 3 calls which is "
            "replayed on the real CIPDriver, plus fault-then-reuse and seeded longer histories on CIPDriver/LogixDriver and "
            "with-blocks (R2); TraceSession guards/obligations C10:* judge every frame and return (R3).  The environment may change "
            "the target's admission policy between calls (Lifecycle!PolicyChange, Lifecycle_env.cfg; `_env` events), replies may "
            "arrive in small TCP segments with the fault inside a frame, and SLCDriver sessions are part of the histories.  The target "
            "refuses a Forward Open whose connection serial numbers equal those of a connection it still holds; when that connection "
            "outlived a close() the re-opened driver is unusable (C10:reopen-duplicate-connection; Lifecycle_stale_triad.cfg is the "
            "negative model in which TLC must find exactly that).",
            "Trusted: TLC, EipTarget/TraceSession as the reading of the property, the scripted socket.  At most two faults per history "
            "(Lifecycle_2f.cfg explores every pair of fault positions for 5 calls); "
            "timing is not modelled.",
            "TLA+ lifecycle design model checked with TLC; TLC-generated histories replayed; recorded sessions validated", "5/C10"),
    "C11": ("session",
            "Encap.tla is a strict parser of request frames; EncapModel.tla shows by TLC that it accepts exactly the well-formed "
            "frames and names the broken field (R1).  Every frame emitted in a cross-section of all session families (arbitrary "
            "handles and connection ids, payload lengths, faults and re-opens) is parsed inside TraceSession, incl. handle = the "
            "handle granted in this TCP connection and connection id = the target's id (R3).",
            "Trusted: TLC, the transcription of CIP Vol 2 ch. 2 into Encap.tla.",
            "TLA+ strict frame parser model-checked with TLC; every recorded frame validated", "5/C11"),
    "C13": ("session",
            "TraceSession / LogixView obligations on results: truthy iff encapsulation and general status are ok (status 6 only "
            "for continuing services), non-empty error naming the status, no success from replies too short for their status "
            "words, only library exceptions.  Sessions answer generic messages with status codes x extended sizes x transports, "
            "inject statuses into tag services (incl. mid-transfer fragments, members of multi-service packets) and truncate / "
            "corrupt / replace replies (cut stream, well-framed truncation with lengths fixed up, bit flip, encapsulation status on a "
            "complete reply, header-only error) for generic, Logix tag (single, fragmented, multi-service, read-modify-write) and "
            "SLC calls, and for the replies of the tag list upload inside open(); the corrupted reply is recomputed by the specification "
            "from the logged corruption.",
            "Trusted: as C10; status texts are data exported from the code, the rule is the specification's; the MEANING of the general "
            "status codes is stated by the specification (EnumMap!StatusKeyword, one key word per code from CIP Vol 1 app. B), so a "
            "text filed under the wrong code is reported.",
            "TLA+ reply-classification contract; recorded sessions with injected statuses and corrupted replies validated", "5/C13"),
    "C14": ("session",
            "TraceSession!CheckGeneric compares the message-router request the specification parses out of each frame (service, "
            "strictly parsed path, data, transport, Unconnected Send length/pad/route) with the call's intent, and the returned "
            "Tag with the scripted reply (raw or decoded through CipTypes); helper calls (name, info, module info, get/set time) "
            "are judged against the specified objects.",
            "Trusted: as C10; direct UCMM appends the sized route to the data by design; Unconnected Send without route unspecified.",
            "TLA+ message-router / Unconnected Send layouts; recorded generic-message sessions validated", "5/C14"),
    "C16": ("session",
            "IdentityView.tla states the identity layout and the user's view; TraceIdent.tla judges decodes of generated identities "
            "over the full 16-bit vendor / product-type range against the exported tables, every name length, round trip; "
            "TraceSession judges _list_identity / get_module_info / get_plc_info against the target's configured identity.",
            "Trusted: TLC, IdentityView.tla; vendor/product texts are the library's literal id tables (data); discover() runs over a "
            "scripted UDP socket (several devices, damaged datagrams); identities decoded away from offset 0 (after other data, as "
            "structure members, as array elements) and results that must not change when the device is exchanged are covered.",
            "TLA+ identity layout/view; recorded decodes and sessions validated", "5/C16"),
    "C17": ("session",
            "SeqCount.tla models the counter and every operation kind; its constants (counts drawn per multi-service member, per "
            "fragmented transfer, per SLC request) are MEASURED from the implementation on each run, then TLC proves freshness "
            "for all histories of 6 operations with scaled moduli or yields a counterexample that is replayed at real scale "
            "(R1/R2); sessions advance the real counter to every wrap phase and cross it with every operation kind; the guard "
            "C17:repeat is evaluated on every connected frame of every session (R3), incl. SLC data-file reads and the data-log queue.  "
            "Side check: Apalache discharges the inductive invariant 'the count sent last is the predecessor of the next count' "
            "for the real modulus 65535 and histories of any length (spec/apalache/SeqCountInd.tla, closed forms tied to "
            "SeqCount.tla by TLC in SeqCountEq.tla) and refutes it for the design before the repair.",
            "Trusted: TLC; the measurement of design parameters through the driver's public generator object.",
            "TLA+ counter model bound to measured parameters, checked with TLC; recorded sessions validated", "5/C17"),
    "C18": ("session",
            "SlcTarget.tla specifies the data table, the PCCC typed read / masked write with the 0xFF escape and SlcView (what an "
            "address denotes); TraceSession compares every PCCC request with the address intent and every result / the table with "
            "the expectation for SLCDriver sessions over all address forms, boundary file/element numbers, bits, counts, values "
            "and invalid addresses.",
            "Trusted: TLC, the transcription of DF1 1770-6.5.16 into SlcTarget.tla; timer/counter sub-elements are only read.",
            "TLA+ PCCC / data-table specification; recorded SLC sessions validated", "5/C18"),
}

PENDING_REASON = "check not built yet in this round (construction order in DESIGN.md section 9); no claim is made"


def build():
    props = [json.loads(l) for l in open(os.path.join(HOME, "properties.jsonl"))]
    checks, na = [], []
    for p in props:
        pid = p["id"]
        if pid in CLAIMED:
            eng, text, note, tech, ref = CLAIMED[pid]
            checks.append({
                "property_id": pid,
                "quick_cmd": "./check %s --tier quick" % pid,
                "thorough_cmd": "./check %s --tier thorough" % pid,
                "evidence_file": "/verif/evidence/%s.json" % pid,
                "replay_cmd_template": "./check %s --replay {path}" % pid,
                "engine": eng,
                "level_claimed": {"category": "model_checking", "text": text, "design_ref": "DESIGN.md section " + ref},
                "level_note": note,
                "technique": tech,
            })
        else:
            na.append({"property_id": pid, "reason": PENDING_REASON})
    man = {
        "version": 1,
        "setup_cmd": "./setup.sh",
        "hooks": {"guard": "PYCOMM3_VERIF", "enable": "no hooks are needed: socket.socket is replaced by a scripted fake "
                  "and only public API is called (guard name reserved)",
                  "baseline_off_cmd": "cd /repo && /venv/bin/python -m pytest tests/offline -q -p no:cacheprovider",
                  "source_commits": [], "add_only": True},
        "engines": [
            {"name": "enum", "path": "spec/EnumMap.tla spec/EnumMapModel.tla spec/TraceEnum.tla vf/props/c19.py",
             "serves_properties": ["C19"], "kind_free_text": "TLA+ semantics + TLC trace validation of recorded lookups"},
            {"name": "codec", "path": "spec/Bytes.tla spec/Ieee754.tla spec/Unicode.tla spec/CipTypes.tla spec/CodecModel.tla "
             "spec/TraceCodec.tla vf/codecgen.py vf/codec_engine.py vf/codec_families.py vf/props/c06.py c07.py c08.py",
             "serves_properties": ["C06", "C07", "C08"], "kind_free_text": "TLA+ reference codec; sharded TLC trace validation"},
            {"name": "path", "path": "spec/EPath.tla spec/ConnPath.tla spec/PathModel.tla spec/ConnPathModel.tla spec/TracePath.tla "
             "vf/props/c09.py vf/props/c15.py", "serves_properties": ["C09", "C15"],
             "kind_free_text": "TLA+ strict EPATH parser and path-grammar interpreter; TLC trace validation"},
            {"name": "session", "path": "spec/Encap.tla spec/EipTarget.tla spec/LogixTarget.tla spec/LogixView.tla spec/SlcTarget.tla "
             "spec/IdentityView.tla spec/TraceSession.tla spec/TraceIdent.tla spec/Lifecycle.tla spec/SeqCount.tla spec/Transfer.tla "
             "spec/Grouping.tla spec/EncapModel.tla vf/session.py vf/simtarget.py vf/session_engine.py vf/projgen.py vf/scenarios.py "
             "vf/props/", "serves_properties": ["C01", "C02", "C03", "C04", "C05", "C10", "C11", "C13", "C14", "C16", "C17", "C18"],
             "kind_free_text": "real drivers over a scripted socket + untrusted reference target; every trace replayed by TLC against the TLA+ target/contract"},
            {"name": "socket", "path": "spec/SocketIO.tla spec/TraceSocket.tla vf/props/c12.py vf/fakesock.py",
             "serves_properties": ["C12"], "kind_free_text": "TLA+ model of the byte-stream loops; schedules from TLC replayed into Socket; trace validation"},
        ],
        "checks": checks,
        "not_applicable": na,
        "notes": "Model-based verification with an explicit TLA+ specification (spec/), see DESIGN.md.",
    }
    with open(os.path.join(HOME, "MANIFEST.json"), "w") as fh:
        json.dump(man, fh, indent=1)
    return man


if __name__ == "__main__":
    build()
