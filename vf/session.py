"""Session engine, implementation side: runs real drivers (CIPDriver / LogixDriver / SLCDriver) through their public API
over a scripted raw socket wired to the reference target, and records the trace (calls, frames, faults, results).
The only seam is socket.socket."""
import json
import socket as _socket
import traceback
from unittest import mock

from .simtarget import Target
from .values import to_term, str_term


class BudgetExceeded(BaseException):
    pass


class Session:
    def __init__(self, sc):
        self.sc = sc
        self.target = Target(sc["target"], sc.get("project"), sc.get("mem"), sc.get("slc"))
        self.events = []
        self.txbuf = b""
        self.rxbuf = b""
        self.rxfull = b""
        self.sends = 0
        self.recvs = 0
        self.faults = list(sc.get("faults") or ([sc["fault"]] if sc.get("fault") else []))   # [{"at": "send"|"recv"|"op", "n": k, "kind": "raise"|"eof"}]
        self.peer_gone = False
        self.chunk = sc.get("chunk", 4096)
        self.sendchunk = sc.get("sendchunk", 0)      # > 0: the network accepts at most that many bytes per send() (partial sends)
        self.budget = sc.get("budget", 400000)
        self.fault_fired = False

    def ev(self, e):
        self.events.append(e)

    def tick(self):
        self.budget -= 1
        if self.budget < 0:
            raise BudgetExceeded()

    def lose_pending(self):
        if self.rxfull:
            self.ev({"k": "lost", "b": list(self.rxfull)})
        self.rxbuf = self.rxfull = b""

    def raw_send(self, data):
        self.tick()
        self.sends += 1
        f = next((x for x in self.faults if x.get("at") == "send" and x["n"] == self.sends or x.get("at") == "op" and x["n"] == self.sends + self.recvs), None)
        if f:
            self.fault_fired = True
            self.ev({"k": "fault", "at": "send", "kind": f["kind"], "n": self.sends})
            self.txbuf = b""                     # whatever part of the frame the network had taken is the network's loss, not a frame
            if f["kind"] == "eof":
                self.peer_gone = True
            raise _socket.error("scripted send failure")
        if self.peer_gone:
            self.txbuf = b""
            raise _socket.error("peer gone")
        if self.sendchunk and len(data) > self.sendchunk:
            data = bytes(data)[:self.sendchunk]
        self.txbuf += bytes(data)
        while len(self.txbuf) >= 24 and len(self.txbuf) >= 24 + (self.txbuf[2] | self.txbuf[3] << 8):
            n = 24 + (self.txbuf[2] | self.txbuf[3] << 8)
            frame, self.txbuf = self.txbuf[:n], self.txbuf[n:]
            self.lose_pending()
            reply = self.target.handle_frame(frame)
            self.ev({"k": "tx", "b": list(frame), "choice": self.target.choice})
            if reply is not None:
                self.rxbuf = self.rxfull = reply
        return len(data)

    def raw_recv(self, n):
        self.tick()
        self.recvs += 1
        f = next((x for x in self.faults if x.get("at") == "recv" and x["n"] == self.recvs or x.get("at") == "op" and x["n"] == self.sends + self.recvs), None)
        if f:
            self.fault_fired = True
            self.ev({"k": "fault", "at": "recv", "kind": f["kind"], "n": self.recvs})
            self.lose_pending()
            if f["kind"] == "eof":
                self.peer_gone = True
                return b""
            raise _socket.timeout("scripted receive failure")
        if self.peer_gone:
            return b""
        if not self.rxbuf:
            self.ev({"k": "noreply"})
            raise _socket.timeout("no reply (request dropped by the target)")
        k = min(n, self.chunk, len(self.rxbuf))
        data, self.rxbuf = self.rxbuf[:k], self.rxbuf[k:]
        if not self.rxbuf:
            self.ev({"k": "rx", "b": list(self.rxfull)})
            self.rxfull = b""
        return data

    def on_close(self):
        if self.txbuf:
            self.ev({"k": "tx", "b": list(self.txbuf), "choice": {"incomplete": 1}})
            self.txbuf = b""
        self.lose_pending()
        self.ev({"k": "sockclose"})
        self.target.sessions.clear()           # TCP close ends the session(s); CIP connections stay (only Forward Close ends them)


class SessionSocket:
    current = None

    def __init__(self, *a, **kw):
        self.s = SessionSocket.current
        self.s.ev({"k": "socknew"})

    def settimeout(self, t):
        pass

    def setsockopt(self, *a):
        pass

    def connect(self, addr):
        self.s.ev({"k": "connect", "host": str_term(str(addr[0])), "port": addr[1] if isinstance(addr[1], int) else -1})
        if self.s.sc.get("connect_refused"):
            raise _socket.error("connection refused")

    def send(self, data):
        return self.s.raw_send(data)

    def recv(self, n):
        return self.s.raw_recv(n)

    def close(self):
        self.s.on_close()


# ------------------------------------------------------------------------------------------------------------------
def tag_term(t):
    return {"tag": to_term(t.tag), "value": to_term(t.value), "type": to_term(t.type if isinstance(t.type, (str, type(None))) else str(t.type)),
            "error": to_term(t.error), "truthy": 1 if t else 0}


def project_result(api, r):
    from pycomm3.tag import Tag
    if isinstance(r, Tag):
        return {"single": 1, "tags": [tag_term(r)]}
    if isinstance(r, list) and r and all(isinstance(x, Tag) for x in r):
        return {"single": 0, "tags": [tag_term(x) for x in r]}
    return {"single": -1, "value": to_term(r), "tags": []}


class wall_clock:
    """Raises BudgetExceeded inside the guarded block after `seconds` of wall-clock time (main thread of the process only;
    elsewhere it is a no-op and the I/O budget is the only guard)."""

    def __init__(self, seconds):
        self.seconds = seconds
        self.armed = False

    def _fire(self, signum, frame):
        raise BudgetExceeded()

    def __enter__(self):
        import signal
        import threading
        if threading.current_thread() is threading.main_thread():
            self.old = signal.signal(signal.SIGALRM, self._fire)
            signal.setitimer(signal.ITIMER_REAL, self.seconds)
            self.armed = True
        return self

    def __exit__(self, *exc):
        if self.armed:
            import signal
            signal.setitimer(signal.ITIMER_REAL, 0)
            signal.signal(signal.SIGALRM, self.old)
        return False


STABLE_APIS = ("read", "write", "generic", "_list_identity", "list_identity", "get_module_info", "get_plc_info", "get_plc_name", "get_plc_time")


def make_driver(sc):
    import pycomm3
    kind = sc["driver"]["kind"]
    path = sc["driver"]["path"]
    if kind == "cip":
        return pycomm3.CIPDriver(path)
    if kind == "logix":
        return pycomm3.LogixDriver(path, init_tags=sc["driver"].get("init_tags", True),
                                   init_program_tags=sc["driver"].get("init_program_tags", True))
    if kind == "slc":
        return pycomm3.SLCDriver(path)
    raise ValueError(kind)


def decode_arg(v):
    """JSON-able argument encodings: {"__b": [...]} bytes, {"__segs": [[port, link]...]} PortSegment list,
    {"__dtype": descriptor} a type class built from the descriptor."""
    if isinstance(v, dict) and "__b" in v:
        return bytes(v["__b"])
    if isinstance(v, dict) and "__segs" in v:
        from pycomm3.cip import PortSegment
        return [PortSegment(p, l) for p, l in v["__segs"]]
    if isinstance(v, dict) and "__dtype" in v:
        from .codecgen import build
        return build(v["__dtype"])
    return v


def do_call(drv, c):
    from .values import from_term
    api = c["api"]
    if api == "_env":                          # the environment changes (not a library call): the target's admission policy
        tgt = SessionSocket.current.target
        if "policy" in c["intent"]:
            tgt.policy = c["intent"]["policy"]
        if "identity" in c["intent"]:                # the device behind the address was exchanged / updated
            tgt.identity = dict(c["intent"]["identity"])
        if "project" in c["intent"]:                 # a new program was downloaded to the controller
            from .simtarget import Project
            tgt.project = Project(c["intent"]["project"], c["intent"]["mem"])
        return None
    if api == "open":
        return drv.open()
    if api == "close":
        return drv.close()
    if api == "enter":
        drv.__enter__()
        return True
    if api == "exit":
        if c.get("raising") == "comm":             # a library call inside the block failed and its CommError left the block
            from pycomm3.exceptions import CommError
            try:
                raise CommError("socket connection broken")
            except CommError as ex:
                return drv.__exit__(type(ex), ex, ex.__traceback__)
        if c.get("raising"):
            try:
                raise ValueError("user code failed inside the with block")
            except ValueError as ex:
                return drv.__exit__(type(ex), ex, ex.__traceback__)
        return drv.__exit__(None, None, None)
    if api == "read":
        return drv.read(*c["tags"])
    if api == "write":
        items = [(t, c["values"][i]) for i, t in enumerate(c["tags"])]
        if len(items) == 1 and c.get("flat"):
            return drv.write(items[0][0], items[0][1])
        return drv.write(*items)
    if api == "generic":
        return drv.generic_message(**{k: decode_arg(v) for k, v in c["kwargs"].items()})
    if api in ("get_plc_name", "get_plc_info", "get_plc_time"):
        return getattr(drv, api)()
    if api == "set_plc_time":
        return drv.set_plc_time(c["us"])
    if api == "get_datalog_queue":
        return drv.get_datalog_queue(c["num"], c["queue"])
    if api == "get_module_info":
        return drv.get_module_info(c["slot"])
    if api == "get_tag_list":
        return drv.get_tag_list(c.get("program"))
    if api == "_list_identity":
        return drv._list_identity()
    if api == "list_identity":                 # the classmethod: its own driver object, session and socket
        return type(drv).list_identity(c["path"])
    if api == "peek_sequence":             # consumes one count and returns it
        return next(drv._sequence)
    if api == "advance_sequence":          # public generator object of the driver: consume counts without sending
        for _ in range(c["n"]):
            next(drv._sequence)
        return None
    raise ValueError(api)


def upload_view(drv):
    """Projection of tags / data_types / info after an upload (C05), in a form TraceSession can compare."""
    from .values import int_term

    def c(x):
        return [ord(ch) for ch in x] if isinstance(x, str) else [63]

    def n(x, d=-1):
        return x if isinstance(x, int) and not isinstance(x, bool) and abs(x) < 2 ** 31 else d
    tags = []
    for name in sorted(drv.tags):
        t = drv.tags[name]
        dims = list(t.get("dimensions") or [0, 0, 0])
        tags.append({"name": c(name), "dim": n(t.get("dim")), "dims": [n(x) for x in (dims + [0, 0, 0])[:3]],
                     "alias": 1 if t.get("alias") else 0, "iid": int_term(t.get("instance_id"))["i"] if isinstance(t.get("instance_id"), int) else [0, 0],
                     "access": c(t.get("external_access")), "dtname": c(t.get("data_type_name")), "ttype": str(t.get("tag_type")),
                     "tid": n(t.get("template_instance_id"))})
    dts = []
    for name in sorted(drv.data_types):
        d = drv.data_types[name]
        internal = []
        for mn, mi in d["internal_tags"].items():
            internal.append({"name": c(mn), "off": n(mi.get("offset")), "ttype": str(mi.get("tag_type")), "dtname": c(mi.get("data_type_name")),
                             "bit": n(mi.get("bit")), "arr": n(mi.get("array"), 0) if mi.get("array") is not None else 0})
        tp = d.get("template", {})
        tc = d.get("type_class")
        wire = n(getattr(tc, "size", None))
        if wire >= 0 and d.get("string") is not None:
            wire += n(getattr(getattr(tc, "len_type", None), "size", None), 0)      # LEN prefix + character area
        dts.append({"name": c(name), "wire": wire, "attrs": [c(a) for a in d["attributes"]], "internal": internal, "string": n(d.get("string"), -1) if d.get("string") is not None else -1,
                    "size": n(tp.get("structure_size")), "count": n(tp.get("member_count")), "handle": n(tp.get("structure_handle")), "defsize": n(tp.get("object_definition_size"))})
    info = drv.info
    progs = [{"name": c(k), "routines": [c(r) for r in (v.get("routines") or [])]} for k, v in sorted(info.get("programs", {}).items())]
    try:
        before = repr(drv.data_types) + repr(drv.tags)
        json.dumps(drv.tags_json)
        js = 1 if repr(drv.data_types) + repr(drv.tags) == before else 0       # serialisable, and a pure function of the definitions
    except Exception:
        js = 0
    keep = ("vendor", "product_type", "product_code", "revision", "status", "serial", "product_name")
    return {"tags": tags, "dts": dts, "programs": progs, "tasks": [c(x) for x in sorted(info.get("tasks", {}))], "json": js,
            "info": to_term({k: info[k] for k in keep if k in info}), "plcname": to_term(drv.name)}


def run_scenario(sc):
    """-> trace dict {id, events}.  Never raises for library failures; harness bugs propagate."""
    from pycomm3.exceptions import PycommError
    s = Session(sc)
    SessionSocket.current = s
    s.ev({"k": "cfg", "target": sc["target"], "driver": sc["driver"], "has_project": 1 if sc.get("project") else 0})
    with mock.patch("socket.socket", SessionSocket), mock.patch("socket.gethostbyname", lambda h: h):
        try:
            drv = make_driver(sc)
        except Exception as ex:                  # the path string was refused: a result of the scenario, not a harness failure
            s.ev({"k": "call", "api": "construct", "intent": {}, "faulted": 0})
            s.ev({"k": "ret", "api": "construct", "outcome": "exc", "cls": type(ex).__name__, "pycomm": 1 if isinstance(ex, PycommError) else 0,
                  "result": {"single": -1, "value": {"none": 1}, "tags": []}, "connected": 0, "size": -1, "faulted": 0, "peer_gone": 0})
            return {"id": sc["id"], "events": s.events, "target_log": [], "ledger": [], "mem_after": {}}
        kept = []
        for c in sc["calls"]:
            s.ev({"k": "call", "api": c["api"], "intent": c.get("intent", {}), "faulted": 1 if s.fault_fired else 0, "ops": s.sends + s.recvs})
            rec = {"k": "ret", "api": c["api"]}
            try:
                with wall_clock(sc.get("call_seconds", 300)):      # a call that spins without touching the socket never hits the I/O budget
                    r = do_call(drv, c)
                rec.update({"outcome": "value", "cls": "", "pycomm": 0, "result": project_result(c["api"], r)})
                if c["api"] in STABLE_APIS:
                    kept.append((c["api"], r, json.dumps(rec["result"], sort_keys=True)))
                if c["api"] in ("open", "get_tag_list", "enter") and c.get("view") and sc["driver"]["kind"] == "logix":
                    rec["view"] = upload_view(drv)
            except BudgetExceeded:
                rec.update({"outcome": "hang", "cls": "", "pycomm": 0, "result": {"single": -1, "value": {"none": 1}, "tags": []}})
            except Exception as ex:
                rec.update({"outcome": "exc", "cls": type(ex).__name__, "pycomm": 1 if isinstance(ex, PycommError) else 0,
                            "result": {"single": -1, "value": {"none": 1}, "tags": []},
                            "tb": traceback.format_exc()[-600:]})
            rec["connected"] = 1 if drv.connected else 0
            rec["size"] = drv.connection_size if isinstance(drv.connection_size, int) else -1
            rec["faulted"] = 1 if s.fault_fired else 0
            rec["peer_gone"] = 1 if s.peer_gone else 0
            rec["tstate"] = {"sessions": sorted(list(x) for x in s.target.sessions), "conns": sorted(list(c_) for c_ in s.target.conns)}
            if rec["outcome"] == "hang":
                # the call never returned: its verdict does not depend on the (possibly millions of) frames it produced, so
                # only the first ones are kept for the record
                k = max(i for i, e in enumerate(s.events) if e["k"] == "call")
                del s.events[k + 1 + 400:]
            s.ev(rec)
            if rec["outcome"] == "hang":
                break
        # a result handed to the caller is a value: later calls must not change it
        for api, r, before in kept:
            try:
                now = json.dumps(project_result(api, r), sort_keys=True)
            except Exception:
                now = None
            if now != before:
                s.ev({"k": "mutated", "api": api})
    return {"id": sc["id"], "events": s.events, "target_log": s.target.log, "ledger": s.target.ledger,
            "mem_after": {k: list(v) for k, v in s.target.project.mem.items()} if s.target.project else {}}
