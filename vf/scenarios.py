"""Scenario building blocks for the session engine: identities, request descriptors -> (tag string, intent)."""
from .values import to_term


def cps(s):
    return [ord(c) for c in s]


IDENT = {"vendor": 1, "product_type": 14, "product_code": 55, "rev_major": 32, "rev_minor": 11, "status": [0x60, 0x31],
         "serial": 0x00C0FFEE, "name": list(b"1756-L83E/B")}


def identity(fw=32, name="1756-L83E/B", serial=0x00C0FFEE, vendor=1, ptype=14, pcode=55, minor=11, status=(0x60, 0x31)):
    return {"vendor": vendor, "product_type": ptype, "product_code": pcode, "rev_major": fw, "rev_minor": minor,
            "status": list(status), "serial": serial, "name": list(name.encode("latin1"))}


def req(levels, scope="", bit=None, count=None, value=None):
    """levels: [(name, [indices])...] -> request descriptor"""
    return {"scope": scope, "levels": [(n, list(i)) for n, i in levels], "bit": bit, "count": count, "value": value}


def tag_string(r, with_count=True):
    s = ("Program:%s." % r["scope"]) if r["scope"] else ""
    s += ".".join(n + ("[%s]" % ",".join(str(x) for x in idx) if idx else "") for n, idx in r["levels"])
    if r["bit"] is not None:
        s += ".%d" % r["bit"]
    if with_count and r["count"] is not None:
        s += "{%d}" % r["count"]
    return s


def intent_of(r):
    it = {"scope": cps(r["scope"]), "levels": [{"n": cps(n), "idx": list(idx)} for n, idx in r["levels"]],
          "bit": -1 if r["bit"] is None else r["bit"], "count": 1 if r["count"] is None else r["count"],
          "hascount": 0 if r["count"] is None else 1, "base": cps(tag_string(r, False)), "value": to_term(r["value"])}
    return it


def read_call(reqs):
    return {"api": "read", "tags": [tag_string(r) for r in reqs], "intent": {"items": [intent_of(r) for r in reqs]}}


def write_call(reqs, flat=False):
    return {"api": "write", "tags": [tag_string(r) for r in reqs], "values": [r["value"] for r in reqs], "flat": flat,
            "intent": {"items": [intent_of(r) for r in reqs]}}
