"""Scenario building blocks for the session engine: identities, request descriptors -> (tag string, intent)."""
from .values import to_term


def cps(s):
    return [ord(c) for c in s]


IDENT = {"vendor": 1, "product_type": 14, "product_code": 55, "rev_major": 32, "rev_minor": 11, "status": [0x60, 0x31],
         "serial": 0x00C0FFEE, "name": list(b"1756-L83E/B")}


def identity(fw=32, name="1756-L83E/B", serial=0x00C0FFEE, vendor=1, ptype=14, pcode=55, minor=11, status=(0x60, 0x31)):
    return {"vendor": vendor, "product_type": ptype, "product_code": pcode, "rev_major": fw, "rev_minor": minor,
            "status": list(status), "serial": serial, "name": list(name.encode("latin1"))}


def req(levels, scope="", bit=None, count=None, value=None):
    """levels: [(name, [indices])...] -> request descriptor"""
    return {"scope": scope, "levels": [(n, list(i)) for n, i in levels], "bit": bit, "count": count, "value": value}


def tag_string(r, with_count=True):
    s = ("Program:%s." % r["scope"]) if r["scope"] else ""
    s += ".".join(n + ("[%s]" % ",".join(str(x) for x in idx) if idx else "") for n, idx in r["levels"])
    if r["bit"] is not None:
        s += ".%d" % r["bit"]
    if with_count and r["count"] is not None:
        s += "{%d}" % r["count"]
    return s


def intent_of(r):
    it = {"scope": cps(r["scope"]), "levels": [{"n": cps(n), "idx": list(idx)} for n, idx in r["levels"]],
          "bit": -1 if r["bit"] is None else r["bit"], "count": 1 if r["count"] is None else r["count"],
          "hascount": 0 if r["count"] is None else 1, "base": cps(tag_string(r, False)), "value": to_term(r["value"])}
    return it


def read_call(reqs):
    return {"api": "read", "tags": [tag_string(r) for r in reqs], "intent": {"items": [intent_of(r) for r in reqs]}}


def write_call(reqs, flat=False):
    return {"api": "write", "tags": [tag_string(r) for r in reqs], "values": [r["value"] for r in reqs], "flat": flat,
            "intent": {"items": [intent_of(r) for r in reqs]}}


# ---------------------------------------------------------------------------------------------------------------------
# generic messaging (C14 / C13 / C11)
def big(n):
    from .values import int_term
    return int_term(n)["i"]


ROUTE_FORMS = ["true", "false", "str", "segs", "bytes"]
PORTNUM = {"bp": 1, "backplane": 1, "enet": 2, "cnet": 2, "dnet": 2, "dhrio-a": 2, "dhrio-b": 3}


def port_seg(p, link):
    """intent form of one hop; link: int or dotted string"""
    pn = PORTNUM[p] if isinstance(p, str) else p
    lb = [int(link)] if (isinstance(link, int) or str(link).isdigit()) else [ord(c) for c in link]
    return {"k": "port", "port": pn, "link": lb}


def route_bytes(hops):
    """independent encoder of a sized port route with the reserved byte (used for the 'bytes' route form)"""
    out = b""
    for h in hops:
        link = bytes(h["link"])
        if len(link) == 1:
            out += bytes([h["port"]]) + link
        else:
            out += bytes([0x10 | h["port"], len(link)]) + link + (b"\x00" if len(link) % 2 else b"")
    return bytes([len(out) // 2, 0]) + out


def generic_call(rnd, driver_route, mode=None, script=None):
    ids = [1, 2, 0x6B, 0x64, 255, 256, 300, 65535, 65536, 70000, 2 ** 31, 2 ** 32 - 1]
    service = rnd.choice([0x01, 0x03, 0x0E, 0x10, 0x4C, 0x4B, 0x7F, rnd.randint(1, 0x7F)])
    cls = rnd.choice([x for x in ids if x not in (6, 2)] + [0xF5, 0xF6, 0x8C])
    inst = rnd.choice(ids + [0])
    attr = rnd.choice([None, None, 1, 7, 255, 256, 65535])
    n = rnd.choice([0, 0, 1, 2, 3, 7, 8, 33, 100, 399, 400])
    data = bytes(rnd.getrandbits(8) for _ in range(n))
    mode = mode or rnd.choice(["connected", "ucmm", "ucsend"])
    kw = {"service": service, "request_data": {"__b": list(data)}, "connected": mode == "connected", "unconnected_send": mode == "ucsend"}
    if rnd.random() < 0.25:                      # documented as bool, used as a truth value: 1 / 0 are accepted spellings
        kw["connected"], kw["unconnected_send"] = int(kw["connected"]), int(kw["unconnected_send"])

    def idarg(v):
        if rnd.random() < 0.3:
            w = 1 if v < 256 else 2 if v < 65536 else 4
            return {"__b": list(v.to_bytes(w, "little"))}
        return v
    kw["class_code"], kw["instance"] = idarg(cls), idarg(inst)
    if attr is not None:
        kw["attribute"] = idarg(attr)
    it = {"service": service, "cls": big(cls), "inst": big(inst), "attr": big(attr) if attr is not None else [], "data": list(data),
          "connected": 1 if mode == "connected" else 0, "ucsend": 1 if mode == "ucsend" else 0, "hasroute": 0, "routesegs": []}
    if mode != "connected":
        forms = ["true", "str", "segs", "bytes"] + (["false"] if mode == "ucmm" else [])
        form = rnd.choice(forms)
        hops = [(rnd.choice(["bp", "backplane", "enet", "cnet", "dhrio-b"]), rnd.choice([0, 1, 5, 17, 255, "10.11.12.13", "1.2.3.4", "192.168.1.20"]))
                for _ in range(rnd.randint(1, 3))]
        segs = [port_seg(p, l) for p, l in hops]
        if form == "true":
            kw["route_path"] = True
            it.update({"hasroute": 1, "routesegs": driver_route, "cfgroute": 1})
        elif form == "false":
            kw["route_path"] = False
        elif form == "str":
            kw["route_path"] = rnd.choice(["/", "\\"]).join("%s%s%s" % (p, rnd.choice(["/", "\\"]), l) for p, l in hops)
            if "\\" in kw["route_path"] or True:
                kw["route_path"] = "/".join("%s/%s" % (p, l) for p, l in hops) if rnd.random() < 0.5 else "\\".join("%s\\%s" % (p, l) for p, l in hops)
            it.update({"hasroute": 1, "routesegs": segs})
        elif form == "segs":
            kw["route_path"] = {"__segs": [[p, l] for p, l in hops]}
            it.update({"hasroute": 1, "routesegs": segs})
        else:
            kw["route_path"] = {"__b": list(route_bytes(segs))}
            it.update({"hasroute": 1, "routesegs": segs})
        it["form"] = form
    # reply chosen by the scenario
    if script is None:
        st = rnd.choice([0, 0, 0, 0, 1, 4, 5, 6, 8, 0x0F, 0x14, 0x1E, 0xFF, rnd.randint(0, 255)])
        ext = [] if st == 0 else rnd.choice([[], [rnd.randint(0, 65535)], [0x2105], [1, 2]])
        rdata = bytes(rnd.getrandbits(8) for _ in range(rnd.choice([0, 1, 2, 4, 8, 9, 33, 200])))
        script = {"status": st, "ext": ext, "data": list(rdata)}
    return {"api": "generic", "kwargs": kw, "intent": it}, script
