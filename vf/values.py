"""Python value <-> trace term.  No JSON number ever exceeds 2^31-1 (TLC integers are 32 bit and the Json module
mangles larger ones): integers travel as base-256 digits, floats as exact (sign, exponent, mantissa bits).
Never imports pycomm3."""
import math


def int_term(n):
    neg = 1 if n < 0 else 0
    a = -n if n < 0 else n
    digs = []
    while a:
        digs.append(a & 0xFF)
        a >>= 8
    digs.reverse()
    return {"i": [neg] + (digs or [0])}


def term_int(t):
    v = 0
    for d in t["i"][1:]:
        v = v * 256 + d
    return -v if t["i"][0] else v


def float_term(x):
    """Exact value of the Python double: (-1)^s * M * 2^e with M odd (bits most significant first)."""
    if math.isnan(x):
        return {"F": "nan"}
    if math.isinf(x):
        return {"F": "pinf" if x > 0 else "ninf"}
    s = 1 if math.copysign(1.0, x) < 0 else 0
    if x == 0:
        return {"f": [s, 0]}
    m, e = math.frexp(abs(x))           # abs(x) = m * 2^e, 0.5 <= m < 1
    M = int(m * (1 << 53))              # exact: doubles have 53 significant bits
    e -= 53
    while M % 2 == 0:
        M //= 2
        e += 1
    bits = [int(c) for c in bin(M)[2:]]
    return {"f": [s, e] + bits}


def term_float(t):
    if "F" in t:
        return {"nan": float("nan"), "pinf": float("inf"), "ninf": float("-inf")}[t["F"]]
    s, e = t["f"][0], t["f"][1]
    M = 0
    for b in t["f"][2:]:
        M = M * 2 + b
    v = math.ldexp(float(M), e)
    return -v if s else v


def str_term(s):
    return {"s": [ord(c) for c in s]}


def bytes_term(b):
    return {"b": list(b)}


def to_term(v):
    """Generic conversion used for results coming back from the library."""
    if v is None:
        return {"none": 1}
    if isinstance(v, bool):
        return {"B": 1 if v else 0}
    if isinstance(v, int):
        return int_term(v)
    if isinstance(v, float):
        return float_term(v)
    if isinstance(v, str):
        return str_term(v)
    if isinstance(v, (bytes, bytearray)):
        return bytes_term(bytes(v))
    if isinstance(v, (list, tuple)):
        return {"l": [to_term(x) for x in v]}
    if isinstance(v, dict):
        return {"d": [[to_term(k), to_term(x)] for k, x in v.items()]}
    return {"x": type(v).__name__}


def from_term(t):
    if "none" in t:
        return None
    if "B" in t:
        return bool(t["B"])
    if "i" in t:
        return term_int(t)
    if "f" in t or "F" in t:
        return term_float(t)
    if "s" in t:
        return "".join(chr(c) for c in t["s"])
    if "b" in t:
        return bytes(t["b"])
    if "l" in t:
        return [from_term(x) for x in t["l"]]
    if "d" in t:
        return {from_term(k): from_term(v) for k, v in t["d"]}
    raise ValueError(t)


def selftest():
    import random
    import struct
    r = random.Random(1)
    for _ in range(20000):
        x = struct.unpack("<d", struct.pack("<Q", r.getrandbits(64)))[0]
        y = term_float(float_term(x))
        assert (math.isnan(x) and math.isnan(y)) or struct.pack("<d", x) == struct.pack("<d", y), x
    for n in [0, 1, -1, 255, 256, -256, 2**31, -2**63, 2**64 - 1, 2**64]:
        assert term_int(int_term(n)) == n
    for v in [None, True, 0, "aé\U0001F600", b"\x00\xff", [1, [2.5, "x"]], {"a": {"b": [1]}}]:
        assert from_term(to_term(v)) == v
    return True
