"""C12 - reply frames survive any TCP segmentation.
R1: SocketIO.tla exhaustively (real constants H=24/RS=256 for bodies 0..8, and a scaled instance where the read size is
    smaller than the header), invariants + termination under fairness.
R2: SocketIO_gen.cfg enumerates every schedule (chunk compositions up to 3 parts, EOF/error after any call, every partial
    send pattern) and each is replayed into the real pycomm3.socket_.Socket over a scripted raw socket.
R3: every replayed/seeded execution is judged by TraceSocket.tla (the contract decides)."""
import json
import os
import random
from unittest import mock

from .. import core, tlc
from ..fakesock import FakeRawSocket, Script, BudgetExceeded

H = 24


def frame_of(body, salt=0):
    # the command code varies with the body length: receive() frames by the length field only, whatever the command is
    cmd = [0x6F, 0x70, 0x65, 0x63, 0x72, 0x73, 0x00C8, 0x04, 0x64][(body + salt) % 9]
    hdr = bytearray(bytes([cmd & 0xFF, cmd >> 8]) + bytes([body & 0xFF, body >> 8]) + bytes((i + salt) % 256 for i in range(4, 24)))
    return bytes(hdr) + bytes(((i * 37 + 11 + salt) % 251) for i in range(body))


def msg_of(n):
    # every window of 3 bytes is unique for the lengths used, so the offset of an offered slice is recoverable
    return bytes(((i * i * 31 + i * 7 + 3) % 256) for i in range(n))


def run_recv(body, chunks, end, flen=None, tmo=0):
    from pycomm3.socket_ import Socket
    from pycomm3.exceptions import CommError
    frame = frame_of(body)
    stream = frame if flen is None else frame[:flen]
    sc = Script(stream=stream, chunks=chunks, recv_end=end, budget=len(stream) + 50)
    FakeRawSocket.current = sc
    with mock.patch("socket.socket", FakeRawSocket):
        s = Socket()
        try:
            data = s.receive(timeout=tmo) if tmo else s.receive()
            out = {"kind": "bytes", "len": len(data), "eq": 1 if data == frame else 0}
        except BudgetExceeded:
            out = {"kind": "hang"}
        except Exception as ex:
            out = {"kind": "exc", "comm": 1 if isinstance(ex, CommError) else 0, "cls": type(ex).__name__}
    return {"op": "recv", "body": body, "flen": H + body, "calls": sc.recv_calls, "out": out,
            "script": {"chunks": chunks if len(chunks) < 40 else chunks[:40] + ["..."], "end": end or "none", "tmo": tmo}}


def run_recv_seq(calls):
    """Several receive() calls on ONE Socket: calls = [(body, chunks, end)].  Each call finds a fresh frame at the current
    position of the stream (the previous call either returned a whole frame or was ended by a socket error in the middle
    of one).  Every call is one case for TraceSocket."""
    from pycomm3.socket_ import Socket
    from pycomm3.exceptions import CommError
    sc = Script(budget=10 ** 6)
    FakeRawSocket.current = sc
    out_cases = []
    with mock.patch("socket.socket", FakeRawSocket):
        s = Socket()
        for j, (body, chunks, end) in enumerate(calls):
            frame = frame_of(body, salt=17 * j + 5)
            sc.stream, sc.pos, sc.chunks, sc.recv_end, sc.recv_calls = frame, 0, list(chunks), end, []
            sc.budget = len(frame) + 50
            try:
                data = s.receive()
                out = {"kind": "bytes", "len": len(data), "eq": 1 if data == frame else 0}
            except BudgetExceeded:
                out = {"kind": "hang"}
            except Exception as ex:
                out = {"kind": "exc", "comm": 1 if isinstance(ex, CommError) else 0, "cls": type(ex).__name__}
            out_cases.append({"op": "recv", "body": body, "flen": H + body, "calls": sc.recv_calls, "out": out,
                              "script": {"chunks": list(chunks)[:40], "end": end or "none", "call": j + 1,
                                         "before": [[b, list(c), e or "none"] for b, c, e in calls[:j]]}})
            if out["kind"] == "hang":
                break
    return out_cases


def run_send(mlen, accepts, end):
    from pycomm3.socket_ import Socket
    from pycomm3.exceptions import CommError
    msg = msg_of(mlen)
    sc = Script(accepts=accepts, send_end=end, budget=mlen + 50)
    FakeRawSocket.current = sc
    with mock.patch("socket.socket", FakeRawSocket):
        s = Socket()
        try:
            r = s.send(msg)
            out = {"kind": "ret", "val": r if isinstance(r, int) and r < 2 ** 31 else -1}
        except BudgetExceeded:
            out = {"kind": "hang"}
        except Exception as ex:
            out = {"kind": "exc", "comm": 1 if isinstance(ex, CommError) else 0, "cls": type(ex).__name__}
    calls = []
    acc = 0
    for data, k in sc.send_calls:
        off = acc if msg[acc:acc + len(data)] == data else msg.find(data)
        calls.append([len(data), off, k])
        acc += max(k, 0)
    return {"op": "send", "mlen": mlen, "calls": calls, "out": out,
            "script": {"accepts": accepts[:40], "end": end or "none"}}


def from_model(ctx):
    """R2: behaviours of SocketIO_gen.cfg -> executions of the real code."""
    res = tlc.must_pass(tlc.run("SocketIO", "SocketIO_gen.cfg", workers=1, timeout=600), "SocketIO_gen")
    ctx.add_tlc(res, "R2")
    cases = []
    for _, mode, body, hist in res.tuples("BEH"):
        ks = [k for k in hist if k > 0]
        end = None
        if hist and hist[-1] == 0:
            end = "eof" if mode == "recv" else "zero"
        elif hist and hist[-1] == -1:
            end = "err"
        if mode == "recv":
            cases.append(run_recv(body, ks, end))
        else:
            cases.append(run_send(body, ks, end))
    # several receive() calls on the same Socket (the second after a complete frame or after a mid-frame socket error)
    res = tlc.must_pass(tlc.run("SocketIO", "SocketIO_gen2.cfg", workers=1, timeout=900), "SocketIO_gen2")
    ctx.add_tlc(res, "R2")
    for _, mode, body, hist in res.tuples("BEH"):
        if mode != "recv":
            continue
        calls = []
        for k in hist:
            if k >= 1000:
                calls.append([k - 1000, [], None])
            elif k > 0:
                calls[-1][1].append(k)
            else:
                calls[-1][2] = "eof" if k == 0 else "err"
        if len(calls) >= 2:
            cases += run_recv_seq([tuple(c) for c in calls])
    return cases


def seeded(ctx, rnd, thorough):
    cases = []
    for flen in (24, 25, 60, 300, 4024):
        for cut in sorted({1, 3, 4, 23, 24, 25, flen - 1} & set(range(1, flen))):
            for end in ("err", "timeout"):
                b2 = rnd.choice([0, 9, 33, 500])
                cases += run_recv_seq([(flen - H, [cut], end), (b2, [rnd.randint(1, H + b2), H + b2], None), (5, [29], None)])
    lens = [24, 25, 27, 28, 47, 48, 255, 256, 257, 279, 280, 281, 511, 512, 535, 1024]
    if thorough:
        lens += [4024, 4025, 32767 + 24, 32768 + 24, 40000, 65535, 65535 + 24]
    else:
        lens += [4024, 32768 + 24, 65535 + 24]
    for flen in lens:
        body = flen - H
        scheds = []
        for first in (1, 2, 3, 4, 5, 23, 24, 25):
            if first < flen:
                scheds.append([first, flen - first])
                scheds.append([first] + [256] * ((flen - first) // 256 + 1))
        scheds.append([256] * (flen // 256 + 1))
        scheds.append([flen])
        if flen > 1:
            scheds.append([flen - 1, 1])
            scheds.append([1] * min(flen, 30) + [flen])
        if flen <= 600 or thorough or flen == 4024:
            scheds.append([1] * flen)
            scheds.append([2] * (flen // 2 + 1))
        for _ in range(12 if thorough else 4):
            rest, s = flen, []
            while rest:
                k = rnd.choice([1, 2, 3, rnd.randint(1, 24), rnd.randint(1, 256), rnd.randint(1, 5000)])
                k = min(k, rest)
                s.append(k)
                rest -= k
            scheds.append(s)
        for s in scheds:
            cases.append(run_recv(body, list(s), None))
            # the same schedule with the peer vanishing / failing at a seeded point
            cut = rnd.randint(0, max(0, flen - 1))
            for end in ("eof", "err", "timeout", rnd.choice(["errno:ECONNABORTED", "errno:ECONNRESET", "errno:EPIPE", "errno:ENOBUFS", "errno:EINTR"])):
                part, acc = [], 0
                for k in s:
                    if acc + k > cut:
                        if cut - acc > 0:
                            part.append(cut - acc)
                        break
                    part.append(k)
                    acc += k
                cases.append(run_recv(body, part, end))
                if end != "eof":                      # the same with an explicit time-out argument (the driver passes one)
                    cases.append(run_recv(body, part, end, tmo=rnd.choice([1, 5, 0.5])))
            cases.append(run_recv(body, list(s), None, tmo=5))
        for cut in sorted({0, 1, 2, 3, 4, 23, 24, flen - 1} & set(range(0, flen))):
            for end in ("eof", "err"):
                cases.append(run_recv(body, [cut] if cut else [], end))
            if cut:
                cases.append(run_recv(body, [cut], "timeout-once"))
                cases.append(run_recv(body, [cut], "timeout-once", tmo=5))
    for mlen in [1, 2, 3, 24, 28, 100, 256, 500, 4024, 4096, 4097, 5000, 9001] + ([65535] if thorough else []):
        pats = [[mlen], [1, mlen], [1, 1, mlen], [mlen // 2 or 1, mlen], [1] * min(mlen, 40) + [mlen]]
        for _ in range(10 if thorough else 4):
            rest, s = mlen, []
            while rest:
                k = min(rnd.choice([1, 2, rnd.randint(1, 10), rnd.randint(1, 1500)]), rest)
                s.append(k)
                rest -= k
            pats.append(s)
        for p in pats:
            cases.append(run_send(mlen, list(p), None))
            for end in ("zero", "err", rnd.choice(["errno:ECONNABORTED", "errno:EPIPE", "errno:ECONNRESET"])):
                j = rnd.randint(0, len(p))
                q = list(p[:j])
                if sum(q) < mlen:
                    cases.append(run_send(mlen, q, end))
    return cases


def run(ctx):
    thorough = ctx.tier == "thorough"
    for cfg in ("SocketIO.cfg", "SocketIO_scaled.cfg"):
        r = tlc.must_pass(tlc.run("SocketIO", cfg, workers=8, coverage=True, timeout=900), cfg)
        zero = [a for a in r.coverage_zero() if a in ("RecvChunk", "RecvEof", "RecvErr", "SendChunk", "SendZero", "SendErr")]
        if zero:
            raise core.Machinery("vacuous model run: actions never taken %s" % zero)
        ctx.add_tlc(r, "R1")
    rnd = random.Random(ctx.seed * 7919 + 12)
    cases = from_model(ctx)
    n_model = len(cases)
    cases += seeded(ctx, rnd, thorough)
    os.makedirs(os.path.join(core.OUT, "traces", str(os.getpid())), exist_ok=True)
    path = os.path.join(core.OUT, "traces", str(os.getpid()), "C12_cases.json")
    slim = [{k: v for k, v in c.items() if k != "script"} for c in cases]
    with open(path, "w") as fh:
        json.dump(slim, fh)
    res = tlc.run("TraceSocket", "TraceSocket.cfg", workers=1, env={"TRACE_FILE": path}, timeout=1800)
    if not res.ok:
        raise core.Machinery("TraceSocket did not complete: %s" % res.out[-2000:])
    ctx.add_tlc(res, "R3")
    ctx.traces = len(cases)
    ctx.evaluations = len(cases)
    for c in cases:
        ctx.nontrivial.add(json.dumps([c["op"], c.get("body", c.get("mlen")), c["script"]], sort_keys=True))
    ctx.rule = ("schedules = every behaviour of SocketIO_gen.cfg (bodies 0..3 / messages 1..6, <= 3 calls, EOF / error after "
                "any call) + boundary classes for 16-23 frame lengths (first chunk 1/2/3/4/5/23/24/25, 256-blocks, last byte "
                "alone, all-ones, seeded random compositions, each also cut by EOF / error / time-out at a seeded byte) + "
                "every 2-call receive sequence of SocketIO_gen2.cfg and seeded 3-call sequences on one Socket (second call after a "
                "complete frame or after a mid-frame socket error / time-out) + partial-send patterns; distinct = distinct (operation, length, schedule); every case has >= 1 raw call or a fault")
    ctx.extra["from_model"] = n_model
    ctx.extra["seeded"] = len(cases) - n_model
    ctx.sample(cases[0])
    ctx.sample(cases[n_model + 3] if len(cases) > n_model + 3 else cases[-1])
    for _, i, clause in res.tuples("FAIL"):
        c = cases[i - 1]
        if clause.startswith("MACHINERY"):
            raise core.Machinery("%s on case %s" % (clause, json.dumps(c)[:500]))
        first = c["calls"][0] if c["calls"] else None
        if c["op"] == "recv":
            key = {"op": "recv", "outcome": c["out"].get("cls", c["out"]["kind"]), "end": c["script"]["end"],
                   "first_chunk_lt_4": bool(first and 0 < first[1] < 4)}
        else:
            key = {"op": "send", "outcome": c["out"].get("cls", c["out"]["kind"]), "end": c["script"]["end"]}
        ctx.violation(clause, key, {"script": c["script"], "out": c["out"], "calls": c["calls"][:12]},
                      {"kind": "socket-case", "case": {k: (v if k != "calls" else v[:200]) for k, v in c.items()}})
    ctx.assumptions += ["a recv() that returns b'' means the peer closed; socket.timeout is a socket.error",
                        "for frames larger than a few hundred bytes equality of returned bytes with the frame is computed "
                        "by the harness (flag eq) rather than inside TLC"]


def replay(path):
    core.assert_repo()
    rec = json.load(open(path))
    c = rec["replay"]["case"]
    sc = c["script"]
    if c["op"] == "recv" and sc.get("call"):
        seq = [(b, ch, None if e == "none" else e) for b, ch, e in sc["before"]]
        seq.append((c["body"], [k for k in sc["chunks"] if isinstance(k, int)], None if sc["end"] == "none" else sc["end"]))
        out = run_recv_seq(seq)[-1]
    elif c["op"] == "recv":
        out = run_recv(c["body"], [k for k in sc["chunks"] if isinstance(k, int)], None if sc["end"] == "none" else sc["end"], tmo=sc.get("tmo", 0)) if sc.get("tmo") else run_recv(c["body"], [k for k in sc["chunks"] if isinstance(k, int)], None if sc["end"] == "none" else sc["end"])
    else:
        out = run_send(c["mlen"], sc["accepts"], None if sc["end"] == "none" else sc["end"])
    print(json.dumps({"recorded": c["out"], "now": out["out"], "calls": out["calls"][:20]}, indent=1))
    return 0
