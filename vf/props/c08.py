"""C08 - codec failures are DataError: never foreign, silent or non-terminating."""
from .. import codec_families as cf
from . import codec_common as cc


def run(ctx):
    cc.r1(ctx)
    th = ctx.tier == "thorough"
    fams = [("failures", lambda r, rnd, t: cf.fam_failures(r, rnd, t, 900 if th else 160))]
    cc.run_families(ctx, fams, 8)
    ctx.rule = ("for every elementary type, seeded random composites and templates: each ill-typed / out-of-range value class, "
                "the empty buffer, every truncation point of two valid encodings (<= 48 bytes: all; longer: 40 sampled + "
                "first/last), random byte strings; every call runs under a 5 s alarm (outcome 'hang'); "
                "distinct = distinct (op, descriptor, input)")


replay = cc.replay
