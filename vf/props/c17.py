"""C17 - connected messages carry fresh sequence counts.
R1: SeqCount.tla instantiated with the design parameters MEASURED from the implementation (how many counts a multi-service
    member, a fragmented transfer and an SLC request draw) for scaled moduli 5..7: TLC proves freshness for every history of
    6 operations or returns the shortest history that repeats a count.
R3: real sessions with the driver's counter advanced to every phase before the wrap, every operation kind across the wrap, a
    multi-service read whose members consume a multiple of 65535 counts, and (thorough) > 65536 connected requests; the
    TraceSession guard C17:repeat judges every connected frame."""
import json
import random

from .. import core, tlc, scenarios as S, session_engine as se
from ..projgen import gen_project, atomic

R = S.req


def base_scenario(i, rnd, calls, big=False):
    proj, mem, _ = gen_project(rnd, n_tags=2, programs=0, junk=False,
                               big_tags=[{"name": "BIG", "code": 0xC4, "dims": [3000]}, {"name": "D1", "code": 0xC4, "dims": []},
                                         {"name": "D2", "code": 0xC3, "dims": []}, {"name": "BW", "code": 0xC4, "dims": []}])
    return {"id": "q%d" % i, "family": "sequence", "target": {"policy": "LargeOK", "identity": S.identity(fw=32)},
            "project": proj, "mem": mem, "driver": {"kind": "logix", "path": "10.3.3.3", "route": [S.port_seg("bp", 0)], "init_tags": True},
            "calls": [{"api": "open"}] + calls + [{"api": "close"}], "budget": 3000000 if big else 30000, "call_seconds": 3600 if big else 300}


def ops(rnd):
    g, s = S.generic_call(rnd, [S.port_seg("bp", 0)], mode="connected", script={"status": 0, "ext": [], "data": [1]})
    g["kwargs"]["class_code"], g["kwargs"]["instance"] = 0x8C, 1
    g["intent"]["cls"], g["intent"]["inst"] = S.big(0x8C), S.big(1)
    return {
        "generic": [g],
        "read1": [S.read_call([R([("D1", [])])])],
        "read3": [S.read_call([R([("D1", [])]), R([("D2", [])]), R([("D1", [])])])],
        "readfrag": [S.read_call([R([("BIG", [])], count=3000)])],
        "writefrag": [S.write_call([R([("BIG", [])], count=3000, value=list(range(3000)))])],
        "bitwrite": [S.write_call([R([("BW", [])], bit=3, value=True), R([("BW", [])], bit=4, value=False), R([("D2", [])], value=5)])],
        "bitwrite2": [S.write_call([R([("BW", [])], bit=3, value=True), R([("D1", [])], bit=9, value=True), R([("D2", [])], bit=0, value=False)]),
                      S.write_call([R([("D1", [])], bit=1, value=False), R([("BW", [])], bit=30, value=True)])],
        "upload": [{"api": "get_tag_list"}],
    }, s


def measure(ctx, rnd):
    """How many counts does each operation kind draw per message sent?  (binds SeqCount's constants to the code)"""
    from .. import session
    o, s = ops(rnd)
    calls = []
    for kind in ("read3", "readfrag"):
        calls += [{"api": "peek_sequence"}] + o[kind] + [{"api": "peek_sequence"}]
    sc = base_scenario(0, rnd, calls)
    tr = session.run_scenario(sc)
    peeks = [se_val(e) for e in tr["events"] if e["k"] == "ret" and e["api"] == "peek_sequence"]
    frames = []
    cur = None
    for e in tr["events"]:
        if e["k"] == "call":
            cur = e["api"]
            frames.append([cur, 0])
        if e["k"] == "tx" and frames:
            frames[-1][1] += 1
    sent = [n for api, n in frames if api in ("read",)]
    if len(peeks) != 4 or len(sent) != 2:
        # the measurement session itself went wrong (e.g. a transfer that never ends): it is judged with the other sessions
        return None, sc
    d3 = (peeks[1] - peeks[0] - 1)          # counts drawn by a 3-member multi read sent as 1 packet
    member = (d3 - sent[0]) // 3
    dfrag = (peeks[3] - peeks[2] - 1)
    fragpre = dfrag - sent[1]
    return {"MemberTakes": member, "FragPre": fragpre, "frames": sent, "drawn": [d3, dfrag]}, sc


def apalache_induction():
    """-> dict of outcomes; raises Machinery when Apalache cannot be run or contradicts the expectation."""
    import os
    import shutil
    import subprocess
    d = os.path.join(tlc.SPEC, "apalache")
    out = os.path.join(core.OUT, "apalache")
    res = {}
    for name, args, expect in (("init=>inv", ["--cinit=CInit", "--init=Init", "--inv=IndInv", "--length=0"], "NoError"),
                               ("inv/\\next=>inv'", ["--cinit=CInit", "--init=IndInit", "--inv=IndInv", "--length=1"], "NoError"),
                               ("original design (a member draws a count) breaks it", ["--cinit=CInitOrig", "--init=IndInit", "--inv=IndInv", "--length=1"], "Error")):
        try:
            p = subprocess.run(["apalache-mc", "check", "--out-dir=" + out] + args + ["SeqCountInd.tla"], cwd=d, stdout=subprocess.PIPE,
                               stderr=subprocess.STDOUT, text=True, timeout=900)
        except (OSError, subprocess.TimeoutExpired) as ex:
            raise core.Machinery("apalache-mc could not be run: %r" % ex)
        got = "NoError" if "The outcome is: NoError" in p.stdout else "Error" if "The outcome is: Error" in p.stdout else "?"
        if got != expect:
            raise core.Machinery("Apalache %s: expected %s, got %s\n%s" % (name, expect, got, p.stdout[-1500:]))
        res[name] = got
    shutil.rmtree(out, ignore_errors=True)
    return res


def se_val(e):
    from ..values import from_term
    return from_term(e["result"]["value"])


def run(ctx):
    thorough = ctx.tier == "thorough"
    rnd = random.Random(ctx.seed * 77 + 17)
    core.assert_repo()
    ms, msc = measure(ctx, rnd)
    msc["id"] = "qmeasure"
    msc["budget"] = 3000
    if ms is None:
        ctx.extra["measurement"] = "failed: the measurement session did not complete; design model run with the documented design"
        ms = {"MemberTakes": 0, "FragPre": 1, "frames": [], "drawn": []}
    ctx.extra["measured_design"] = ms
    # R1 with the measured design
    import os
    for n in (5, 6, 7):
        cfgname = "SeqCount_measured_%d.cfg" % n
        path = os.path.join(tlc.SPEC, cfgname)
        with open(path, "w") as fh:
            fh.write("SPECIFICATION Spec\nCONSTANTS N = %d  MaxOps = 6  MaxK = %d  MemberTakes = %d  FragPre = %d  SlcPre = 1\n"
                     "INVARIANT Fresh\nCHECK_DEADLOCK FALSE\n" % (n, n + 2, ms["MemberTakes"], ms["FragPre"]))
        r = tlc.run("SeqCount", cfgname, workers=4, timeout=600)
        os.remove(path)
        ctx.add_tlc(r, "R1")
        if not r.ok:
            if r.violated != "Fresh":
                raise core.Machinery("SeqCount: " + r.out[-1500:])
            ctx.extra["design_counterexample_modulus_%d" % n] = "shortest history repeating a count exists (scaled); the real-scale replay below decides"
    # unbounded side check (Apalache): the inductive invariant "the count sent last is the predecessor of the next count"
    # holds for the real modulus 65535 and histories of any length when an operation draws 0 or 1 unsent counts first (the
    # measured design); SeqCountEq (TLC) ties the closed forms used there to SeqCount's recursive definitions
    if ms["MemberTakes"] == 0 and ms["FragPre"] in (0, 1):
        for n in (1, 2, 5, 7):
            r = tlc.must_pass(tlc.run("SeqCountEq", "SeqCountEq_%d.cfg" % n, workers=2, timeout=300), "SeqCountEq")
            ctx.add_tlc(r, "R1")
        ctx.extra["apalache"] = apalache_induction()
    else:
        ctx.extra["apalache"] = "skipped: the measured design is not the one SeqCountInd.tla states"
    # R3
    scs = [msc]
    o, script = ops(rnd)
    kinds = list(o)
    for d in range(0, 7):
        for kind in kinds:
            calls = [{"api": "advance_sequence", "n": 65535 - 20 - d}] + [c for k in (rnd.choice(kinds), kind, rnd.choice(kinds), kind) for c in o[k]]
            sc = base_scenario(len(scs), rnd, calls)
            sc["target"]["script"] = [script] * 8
            scs.append(sc)
    # redundant open() calls between messages, and a target that answers a fragment request with an empty fragment
    for j in range(6):
        g = o["generic"]
        calls = g + [{"api": "open"}] + g + o["read1"] + [{"api": "open"}] + o["read1"] + g
        sc = base_scenario(len(scs), rnd, calls)
        sc["target"]["script"] = [script] * 8
        scs.append(sc)
        sc = base_scenario(len(scs), rnd, o["generic"] + o["readfrag"] + o["read1"] + o["readfrag"])
        sc["target"]["script"] = [script] * 4
        sc["target"]["caps"] = rnd.choice([[0, 4000, 0, 500], [0], [1000, 0, 0, 3000], [0, 0, 1]])
        scs.append(sc)
    # plain CIPDriver histories (the counter starts at 1 right after open): redundant opens, close / re-open
    from .c10 import scenario as life
    for hist in (["open", "msgC", "open", "msgC", "msgC"], ["open", "msgC", "msgC", "open", "msgC"], ["open", "msgC", "close", "open", "msgC", "msgC"],
                 ["msgC", "open", "msgC", "open", "open", "msgC"], ["open", "msgC", "msgU", "open", "msgC"]):
        for pol in ("LargeOK", "LargeRefused"):
            sc = life(len(scs), pol, "none", 0, hist, rnd)
            sc["id"] = "qc%d" % len(scs)
            sc["family"] = "sequence"
            scs.append(sc)
    # requests that each fill a packet of the small connection: every one travels alone (a multi-service packet of one, or bare)
    for j in range(3):
        proj, mem, _ = gen_project(rnd, n_tags=1, programs=0, junk=False,
                                   big_tags=[{"name": "A%d" % k, "code": 0xC4, "dims": [rnd.choice([100, 105, 110])]} for k in range(4)] + [{"name": "D1", "code": 0xC4, "dims": []}])
        big = S.read_call([R([("A%d" % k, [])], count=100) for k in range(3)])
        bigw = S.write_call([R([("A%d" % k, [])], count=100, value=list(range(100))) for k in range(2)] + [R([("D1", [])], value=1)])
        calls = o["read1"][:0] + [S.read_call([R([("D1", [])])]), big, bigw, big, S.read_call([R([("D1", [])])])]
        if j:
            calls = [{"api": "advance_sequence", "n": 65535 - 2 - j}] + calls
        scs.append({"id": "qa%d" % j, "family": "sequence", "target": {"policy": "LargeRefused", "identity": S.identity(fw=32)},
                    "project": proj, "mem": mem, "driver": {"kind": "logix", "path": "10.3.3.4", "route": [S.port_seg("bp", 0)], "init_tags": True},
                    "calls": [{"api": "open"}] + calls + [{"api": "close"}], "budget": 30000})
    # SLC / MicroLogix sessions: data-file reads and the data-log queue (one connected request per record + one to clear)
    from . import c18
    for j in range(4):
        tab = c18.table(rnd)
        tab[str(10000 + 1)] = {"type": "DLG", "words": [], "recs": [[ord(ch) for ch in "rec%d,%d" % (k, rnd.randint(0, 999))] for k in range(rnd.choice([2, 5, 6]))]}
        rd = lambda e: {"api": "read", "tags": ["N7:%d" % e], "intent": {"items": [{"pos": 0, "bit": -1, "sub": "", "count": 1, "valid": 1, "value": {"none": 1},
                                                                                   "ftype": "N", "file": 7, "elem": e}]}}
        calls = [{"api": "open"}, rd(1), {"api": "get_datalog_queue", "num": rnd.choice([1, 3]), "queue": 1}, rd(2),
                 {"api": "get_datalog_queue", "num": 2, "queue": 1}, rd(3), {"api": "close"}]
        if j % 2:
            calls = calls[:1] + [{"api": "advance_sequence", "n": 65535 - 3 - j}] + calls[1:]
        scs.append({"id": "qs%d" % j, "family": "sequence", "target": {"policy": rnd.choice(["LargeOK", "LargeRefused"]), "identity": S.identity(name="1766-L32BWA")},
                    "slc": tab, "driver": {"kind": "slc", "path": "10.3.3.9", "route": [S.port_seg("bp", 0)]}, "calls": calls})
    # members of one multi-service call consuming a multiple of 65535 counts: the scaled counterexample of the design
    # model replayed at real scale.  Quick tier: only when the model, instantiated with the measured design, admits it.
    design_breaks = any(k.startswith("design_counterexample") for k in ctx.extra)
    per = max(1, ms["MemberTakes"])
    ks = []
    if thorough or design_breaks:
        ks = [(65535 - 1) // per if (65535 - 1) % per == 0 else 65534]
    if thorough:
        ks += [65535]
    for k in ks:
        g = o["generic"]
        sc = base_scenario(len(scs), rnd, g + [S.read_call([R([("D1", [])])] * k)] + g, big=True)
        sc["target"]["script"] = [script] * 4
        sc["id"] = "qbig%d" % k
        scs.append(sc)
    if thorough:
        calls = []
        for j in range(330):
            calls += [S.read_call([R([("D1", [])])] * 1)] * 200
        sc = base_scenario(len(scs), rnd, calls, big=True)
        sc["id"] = "qlong"
        scs.append(sc)
    results = se.run_all(ctx, scs, "c17", shard_traces=8, shard_bytes=30_000_000, timeout=3000)
    ctx.traces = len(results)
    nf = se.report(ctx, results, lambda r, clause, ev: {"family": r["sc"]["family"], "scenario": "multi-of-%s" % r["sc"]["id"][4:] if r["sc"]["id"].startswith("qbig") else "wrap-phase"})
    ctx.evaluations = nf
    for r in results:
        ctx.nontrivial.add(r["sc"]["id"])
    ctx.rule = ("7 wrap phases x 8 operation kinds (generic, single read, multi read, fragmented read, fragmented write, bit "
                "writes on one and on several tags per call, tag-list upload) with the real counter advanced through its public generator, one multi-service read of "
                "65534 / 65535 members, thorough: 66000 single reads; evaluations = connected frames judged; distinct = scenarios")
    ctx.sample({"measured": ms})
    ctx.sample({"calls": [c["api"] for c in scs[0]["calls"]]})


def replay(path):
    from . import logix_common as lc
    return lc.replay(path)
