"""C18 - SLC addresses select the right file, element and bit; data round-trips.
R1: SlcModel (write-then-read, bit writes touch one bit, the 0xFF escape round-trips) on a small table.
R3: SLCDriver sessions (real Forward Open, reads / writes of every address form) against the PCCC target; TraceSession
    recomputes every PCCC reply with SlcTarget.tla, compares request fields with the address intent (C18:file / element /
    sub-element / size / mask / data) and results with the data table (C18:readback, C18:outside)."""
import json
import random
import struct

from .. import core, tlc, scenarios as S, session_engine as se
from ..values import to_term

EW = {"N": 1, "B": 1, "S": 1, "I": 1, "O": 1, "F": 2, "L": 2, "T": 3, "C": 3}


def table(rnd):
    t = {}
    for fno, ty, n in ((7, "N", 256), (3, "B", 256), (8, "F", 40), (9, "L", 40), (2, "S", 64), (1, "I", 30), (0, "O", 30), (4, "T", 20), (5, "C", 20),
                       (10, "N", 12), (255, "N", 6), (254, "B", 20), (11, "F", 256), (100, "L", 3)):
        t[str(fno)] = {"type": ty, "words": [rnd.choice([0, 1, 0xFFFF, 0x8000, 0x7FFF, 0x5555, 0xAAAA, 0x2AAA, 0x1400, rnd.getrandbits(16)]) for _ in range(n * EW[ty])]}
    # floats: finite values only
    for fno in ("8", "11"):
        w = t[fno]["words"]
        for i in range(0, len(w), 2):
            b = struct.pack("<f", rnd.choice([0.0, 1.5, -2.25, 1e10, rnd.uniform(-1000, 1000)]))
            w[i], w[i + 1] = b[0] | b[1] << 8, b[2] | b[3] << 8
    return t


def addr(rnd, tab, write=False):
    """-> (address string, intent)"""
    k = rnd.randint(0, 11)
    case = (lambda s: s.lower()) if rnd.random() < 0.3 else (lambda s: s)
    it = {"pos": 0, "bit": -1, "sub": "", "count": 1, "valid": 1, "value": {"none": 1}}
    if k <= 3:                                              # word forms N / F / L with optional count
        ty, fno = rnd.choice([("N", 7), ("N", 10), ("N", 255), ("F", 8), ("F", 11), ("L", 9), ("L", 100), ("N", 7)])
        n = len(tab[str(fno)]["words"]) // EW[ty]
        e = rnd.choice([0, 1, n - 1, rnd.randint(0, n - 1), min(n - 1, 254), min(n - 1, 255)])
        cnt = rnd.choice([1, 1, 2, min(5, n - e), min(10, n - e)]) if rnd.random() < 0.5 else 1
        if rnd.random() < 0.12:                             # replies just above 256 bytes (and the largest request a packet holds)
            cnt = rnd.choice([98, 100, 104, 109, 116, 120, 127]) // EW[ty]
        cnt = max(1, min(cnt, n - e))
        s = "%s%d:%d" % (ty, fno, e) + ("{%d}" % cnt if cnt > 1 else "")
        it.update({"ftype": ty, "file": fno, "elem": e, "count": cnt})
    elif k <= 5:                                            # bit form  N7:3/5, B3:2/15, S:1/4
        ty, fno = rnd.choice([("N", 7), ("B", 3), ("B", 254), ("S", 2), ("N", 10)])
        n = len(tab[str(fno)]["words"])
        e, b = rnd.choice([0, n - 1, rnd.randint(0, n - 1)]), rnd.choice([0, 1, 2, 7, 8, 14, 15, rnd.randint(0, 15)])
        bt = "%02d" % b if rnd.random() < 0.2 else "%d" % b         # the grammar takes one or two digits: 7 and 07 are the same bit
        s = ("S:%d/%s" % (e, bt)) if ty == "S" else "%s%d:%d/%s" % (ty, fno, e, bt)
        it.update({"ftype": ty, "file": fno, "elem": e, "bit": b})
    elif k == 6:                                            # binary-file bit form B3/n
        fno = rnd.choice([3, 254])
        n = len(tab[str(fno)]["words"])
        bn = rnd.choice([0, 1, 15, 16, 17, 31, 32, 16 * n - 1, rnd.randint(0, 16 * n - 1)])
        s = "B%d/%d" % (fno, bn)
        it.update({"ftype": "B", "file": fno, "elem": bn // 16, "bit": bn % 16})
    elif k == 7:                                            # status file word
        e = rnd.randint(0, 63)
        s = "S:%d" % e
        it.update({"ftype": "S", "file": 2, "elem": e})
    elif k == 8:                                            # I/O: I:1, O:2.1, I:3/4
        ty = rnd.choice(["I", "O"])
        fno = 1 if ty == "I" else 0
        e = rnd.randint(0, 20)
        form = rnd.randint(0, 3)
        if form == 3:                                       # a bit of a word other than the first of the slot
            p, b = rnd.randint(0, 5), rnd.randint(0, 15)
            s = "%s:%d.%d/%d" % (ty, e, p, b)
            it.update({"ftype": ty, "file": fno, "elem": e, "pos": p, "bit": b})
        elif form == 0:
            s = "%s:%d" % (ty, e)
            it.update({"ftype": ty, "file": fno, "elem": e})
        elif form == 1:
            p = rnd.randint(0, 5)
            s = "%s:%d.%d" % (ty, e, p)
            it.update({"ftype": ty, "file": fno, "elem": e, "pos": p})
        else:
            b = rnd.randint(0, 15)
            s = "%s:%d/%d" % (ty, e, b)
            it.update({"ftype": ty, "file": fno, "elem": e, "bit": b})
    elif k == 9 and not write:                              # timer / counter sub-elements (reads)
        ty, fno = rnd.choice([("T", 4), ("C", 5)])
        e = rnd.randint(0, 19)
        sub = rnd.choice(["PRE", "ACC", "EN", "DN", "TT"] if ty == "T" else ["PRE", "ACC", "CU", "CD", "DN", "OV", "UN"])
        s = "%s%d:%d.%s" % (ty, fno, e, sub)
        it.update({"ftype": ty, "file": fno, "elem": e, "sub": sub})
    else:                                                   # outside the grammar / ranges: must be rejected
        s = rnd.choice(["N7:256", "N7:1000", "N256:0", "N0:1", "N7:0/16", "N7:3/99", "B3/4096", "B3/99999", "X7:0", "Q3:1", "N7", "7:0",
                        "F8:300", "L9:0/16", "B300/1", "T4:0.XYZ", "N7:10000", "N1000:1", "F8:2560"])
        if rnd.random() < 0.6:                              # one field of a well-formed address pushed out of its range
            badbit, badel, badfile = rnd.choice([16, 17, 31, 99]), rnd.choice([256, 300, 999]), rnd.choice([0, 256, 999])
            s = rnd.choice(["%s%d:%d/%d" % (rnd.choice("NB"), rnd.choice([3, 7, 10]), rnd.randint(0, 5), badbit),
                            "S:%d/%d" % (rnd.randint(0, 63), badbit), "S:%d" % badel, "S:%d/%d" % (badel, rnd.randint(0, 15)),
                            "%s:%d/%d" % (rnd.choice("IO"), rnd.randint(0, 20), badbit), "%s:%d" % (rnd.choice("IO"), badel),
                            "%s%d:%d" % (rnd.choice("NFLB"), rnd.choice([7, 8, 9, 3]), badel), "%s%d:0" % (rnd.choice("NFLB"), badfile),
                            "B%d/%d" % (rnd.choice([3, 254]), rnd.choice([4096, 5000, 9999])), "B%d/1" % badfile,
                            "%s%d:%d.ACC" % (rnd.choice("TC"), rnd.choice([4, 5]), badel)])
        it.update({"ftype": "N", "file": 0, "elem": 0, "valid": 0})
    if write and it["valid"]:
        ty = it["ftype"]
        if it["bit"] >= 0:
            v = rnd.random() < 0.5
        elif ty == "F":
            vals = [struct.unpack("<f", struct.pack("<f", rnd.choice([0.0, 1.5, -3.25, 123456.0, rnd.uniform(-1e4, 1e4)])))[0] for _ in range(it["count"] + 1)]
            v = vals[0] if it["count"] == 1 else vals[:it["count"] + rnd.choice([0, 1])]
        elif ty == "L":
            vals = [rnd.choice([0, -1, 2 ** 31 - 1, -2 ** 31, rnd.randint(-2 ** 31, 2 ** 31 - 1)]) for _ in range(it["count"] + 1)]
            v = vals[0] if it["count"] == 1 else vals[:it["count"] + rnd.choice([0, 1])]
        else:
            vals = [rnd.choice([0, -1, 32767, -32768, 255, 256, rnd.randint(-32768, 32767)]) for _ in range(it["count"] + 1)]
            v = vals[0] if it["count"] == 1 else vals[:it["count"] + rnd.choice([0, 1])]
        it["value"] = to_term(v)
        it["pyvalue"] = v
    return case(s) if it["valid"] or rnd.random() < 0.5 else s, it


def gen(rnd, n):
    scs = []
    for i in range(n):
        tab = table(rnd)
        calls = [{"api": "open"}]
        for _ in range(rnd.randint(3, 8)):
            if rnd.random() < 0.45:
                items = [addr(rnd, tab, write=True) for _ in range(rnd.choice([1, 1, 2, 3]))]
                if sum(1 for _, it in items if not it["valid"]) and len(items) > 1:
                    items = [x for x in items if x[1]["valid"]] or items[:1]
                if any(not it["valid"] for _, it in items):
                    items = items[:1]
                    items[0][1]["pyvalue"] = 1
                calls.append({"api": "write", "tags": [s for s, _ in items], "values": [it.get("pyvalue", 1) for _, it in items], "flat": False,
                              "intent": {"items": [{k: v for k, v in it.items() if k != "pyvalue"} for _, it in items]}})
                back = [(s, dict(it, value={"none": 1})) for s, it in items if it["valid"]]
                if back:
                    calls.append({"api": "read", "tags": [s for s, _ in back], "intent": {"items": [{k: v for k, v in it.items() if k != "pyvalue"} for _, it in back]}})
            else:
                items = [addr(rnd, tab) for _ in range(rnd.choice([1, 1, 2, 4]))]
                if any(not it["valid"] for _, it in items):
                    items = [x for x in items if not x[1]["valid"]][:1]
                calls.append({"api": "read", "tags": [s for s, _ in items], "intent": {"items": [it for _, it in items]}})
        if i % 8 == 3:                                      # every sub-element of one timer and one counter element
            for ty, fno, subs in (("T", 4, ["PRE", "ACC", "EN", "DN", "TT"]), ("C", 5, ["PRE", "ACC", "CU", "CD", "DN", "OV", "UN", "UA"])):
                e = rnd.randint(0, 19)
                items = [("%s%d:%d.%s" % (ty, fno, e, sub), {"pos": 0, "bit": -1, "sub": sub, "count": 1, "valid": 1, "value": {"none": 1},
                                                               "ftype": ty, "file": fno, "elem": e}) for sub in subs]
                calls.append({"api": "read", "tags": [a for a, _ in items], "intent": {"items": [it for _, it in items]}})
        if i % 8 == 5:                                      # one element addressed in several forms within one call
            e, b = rnd.randint(0, 200), rnd.randint(0, 15)
            base = {"pos": 0, "bit": -1, "sub": "", "count": 1, "valid": 1, "value": {"none": 1}, "ftype": "N", "file": 7, "elem": e}
            forms = [("N7:%d/%d" % (e, b), dict(base, bit=b)), ("N7:%d{4}" % e, dict(base, count=4)), ("N7:%d" % e, dict(base)), ("N7:%d{2}" % e, dict(base, count=2))]
            for order in (forms, forms[::-1], [forms[1], forms[2]]):
                calls.append({"api": "read", "tags": [a for a, _ in order], "intent": {"items": [it for _, it in order]}})
        if i % 10 == 7:                                     # the request that crosses the wrap of the 16-bit counters
            calls.insert(1, {"api": "advance_sequence", "n": 65535 - rnd.randint(1, 6)})
        calls.append({"api": "close"})
        slot = rnd.choice([0, 0, 2])
        scs.append({"id": "slc%d" % i, "family": "slc", "target": {"policy": rnd.choice(["LargeOK", "LargeRefused"]), "identity": S.identity(name="1747-L552")},
                    "slc": tab, "driver": {"kind": "slc", "path": "10.6.6.6" + ("/%d" % slot if slot else ""), "route": [S.port_seg("bp", slot)]},
                    "calls": calls, "chunk": rnd.choice([4096, 4096, 256, 100, 7])})
    return scs


def run(ctx):
    thorough = ctx.tier == "thorough"
    import os
    if os.path.exists(os.path.join(tlc.SPEC, "SlcModel.cfg")):
        r = tlc.must_pass(tlc.run("SlcModel", "SlcModel.cfg", workers=16, timeout=900), "SlcModel")
        ctx.add_tlc(r, "R1")
    rnd = random.Random(ctx.seed * 733 + 18)
    scs = gen(rnd, 1500 if thorough else 160)
    # a status-0 reply whose data stops before the addressed element(s) end (single-address reads): never a value
    from . import c13
    single = [s for s in gen(rnd, 300 if thorough else 60)]
    for s in single:
        s["id"] = "sd" + s["id"]
        s["calls"] = [c for c in s["calls"] if c["api"] not in ("read", "write") or len(c["tags"]) == 1]
    scs += c13.corrupt_one_call(rnd, single, kinds=("trunc",), family="slc-short-data")
    results = se.run_all(ctx, scs, "c18")
    ctx.traces = len(results)
    se.report(ctx, results, lambda r, clause, ev: {"family": r["sc"]["family"], "api": next((e["api"] for e in reversed(r["trace"]["events"][:r["at"]]) if e["k"] == "call"), ""),
                                                    "form": form_of(r, ev)})
    n = 0
    for s in scs:
        for c in s["calls"]:
            if c["api"] in ("read", "write"):
                n += len(c["tags"])
                for t in c["tags"]:
                    ctx.nontrivial.add(c["api"] + ":" + t)
    ctx.evaluations = n
    ctx.rule = ("SLCDriver sessions over a 14-file data table (N, B, F, L, S, I, O, T, C; file numbers incl. 254/255, elements up to "
                "255): word / bit / Bf/n / {count} / I-O position / timer-counter sub-element forms in upper and lower case, "
                "boundary and random values, addresses outside the grammar and ranges; distinct = distinct (api, address)")
    ctx.sample({"calls": [{"api": c["api"], "tags": c.get("tags")} for c in scs[0]["calls"][:6]]})
    ctx.assumptions += ["file / element values >= 255 use the DF1 escape 0xFF + 16-bit value; the masked write applies "
                        "(old AND NOT mask) OR (data AND mask) per word", "timer / counter sub-elements are only read"]


def form_of(r, ev):
    calls = [e for e in r["trace"]["events"][:r["at"]] if e["k"] == "call"]
    if not calls:
        return ""
    idx = len(calls) - 1
    c = [c for c in r["sc"]["calls"]][idx] if idx < len(r["sc"]["calls"]) else {}
    tags = c.get("tags", [])
    t = tags[0] if tags else ""
    import re
    return re.sub(r"\d+", "n", t)


def replay(path):
    from . import logix_common as lc
    return lc.replay(path)
