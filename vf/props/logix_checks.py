"""C01 / C02 / C03 / C04: Logix read & write sessions judged by TraceSession (LogixTarget + LogixView)."""
import json
import random

from .. import core, tlc, scenarios as S, session_engine as se
from . import logix_rw

R = S.req


def keyfn(r, clause, ev):
    calls = [e for e in r["trace"]["events"][:r["at"]] if e["k"] == "call"]
    api = calls[-1]["api"] if calls else ""
    return {"family": r["sc"]["family"], "api": api, "fw": r["sc"]["target"]["identity"]["rev_major"], "policy": r["sc"]["target"]["policy"]}


def window_sessions(rnd, n, thorough):
    """C04: tags of every size in windows around the connection sizes (and multiples), read and written, single and multi."""
    out = []
    for i in range(n):
        pol = ["LargeOK", "LargeRefused"][i % 2]
        S0 = 4000 if pol == "LargeOK" else 500
        w = 64 if thorough else 24
        center = rnd.choice([S0, S0, 2 * S0, 3 * S0])
        sizes = sorted({max(1, center + d) for d in rnd.sample(range(-w, w + 1), 6)})
        big = []
        for j, sz in enumerate(sizes):
            code, es = rnd.choice([(0xC2, 1), (0xC3, 2), (0xC4, 4), (0xC5, 8), (0xC2, 1)])
            big.append({"name": rnd.choice(["W", "Wnd_Tag_With_A_Longer_Name_", "w"]) + "%d" % j, "code": code, "dims": [max(1, sz // es)]})
        # structure-typed tags larger than the connection (replies carry the 4-byte structure type header)
        su = rnd.choice(["Inner", "Flat", "STRING", "Outer"] if S0 == 500 else ["Flat", "STRING", "Outer", "Outer"])
        sbig = {"name": "WS", "udt": su, "dims": [max(2, S0 // {"Inner": 8, "Flat": 40, "STRING": 88, "Outer": 150}[su] + rnd.randint(1, 4))]}
        wb = {"name": "WB", "code": 0xD3, "dims": [S0 // 4 + rnd.randint(3, 12)]}            # BOOL array whose words do not fit one reply
        # structure slices whose value bytes land in the last bytes below the connection size (structure replies carry a
        # 4-byte type field: the estimate that decides "fragment or not" must count it)
        eu, esz = ("Inner", 8) if S0 == 4000 else ("In12", 12)
        heavy = S0 == 4000 and (i % 8 != 0 or not thorough)    # 499-element structure reads (about 3 minutes of TLC each): thorough tier only
        edge = {"name": "WE", "udt": eu, "dims": [4 if heavy else S0 // esz + 3]}
        sc = logix_rw.session(rnd, i, prefix="win", n_calls=0, big=big + [sbig, wb, edge], policy=pol, n_tags=2)
        calls = [{"api": "open"}]
        for b in big:
            n_el = b["dims"][0]
            rd = R([(b["name"], [])], count=n_el)
            vals = [rnd.randint(0, 100) for _ in range(n_el)]
            wr = R([(b["name"], [])], count=n_el, value=vals)
            if rnd.random() < 0.5:
                calls += [S.read_call([rd]), S.write_call([wr]), S.read_call([rd])]
            else:
                ob = big[0] if b is not big[0] else big[-1]              # never the same tag: overlapping writes are not generated
                other = R([(ob["name"], [0])])
                calls += [S.read_call([rd, other]), S.write_call([wr, dict(other, value=1)]), S.read_call([other, rd])]
        for ne in sorted({(S0 - 8) // esz, (S0 - 10) // esz, (S0 - 8) // esz + 1}):
            if 1 <= ne <= edge["dims"][0]:
                calls.append(S.read_call([R([("WE", [])], count=ne)]))
        calls.append(S.read_call([R([("WE", [k])]) for k in range(min(edge["dims"][0], 45))]))     # many structure elements in one call
        ws = R([("WS", [])], count=sbig["dims"][0])
        nbits = 32 * wb["dims"][0]
        calls += [S.read_call([R([("WB", [nbits - 64])], count=64), R([("WB", [nbits - 1])])]), S.read_call([R([("WB", [0])], count=64), R([("WB", [nbits - 40])], count=8)])]
        wst = next(x for x in sc["project"]["symbols"] if x["name"] == "WS")["type"]
        wsv = logix_rw.value_for(sc["project"], wst, rnd, sbig["dims"][0])
        calls += [S.write_call([dict(ws, value=wsv)]), S.read_call([ws])]
        calls += [S.read_call([ws]), S.read_call([R([("WS", [1])], count=sbig["dims"][0] - 1), R([(big[0]["name"], [0])])])]
        # several mid-sized reads in one call: fills multi-service packets to the brim
        mids = [R([(b["name"], [])], count=max(1, min(b["dims"][0], rnd.choice([S0 // 40, S0 // 8, S0 // 3])))) for b in big for _ in range(3)]
        calls.append(S.read_call(mids))
        calls.append({"api": "close"})
        if i % 7 == 3:
            # the target refuses every Forward Open at first (busy) and admits connections later: the size in force is the
            # one negotiated by the Forward Open that finally succeeded
            sc["target"]["policy"] = "AllRefused"
            calls = [{"api": "open"}, {"api": "_env", "intent": {"policy": pol}}] + calls
        if i % 5 == 1:          # (not i % 7: firmware cycles with period 7, policy with period 2; this residue meets every combination)
            # close and open again on the same driver object (same target policy): the second session negotiates like the first
            calls = calls[:-1] + [{"api": "close"}, {"api": "open"}, S.read_call(mids[:8]), S.read_call([R([(big[0]["name"], [])], count=big[0]["dims"][0])]), {"api": "close"}]
        if i % 7 == 5:
            # the same driver object is used for two sessions: the large connection first, then (the target no longer admits
            # large connections) the small one; nothing sized for the first session may leak into the second
            sc["target"]["policy"] = "LargeOK"
            first = [S.read_call(mids), S.write_call([dict(r, value=[1] * r["count"]) if r.get("count") else dict(r, value=1) for r in mids[:6:3]])]
            calls = [{"api": "open"}] + first + [{"api": "close"}, {"api": "_env", "intent": {"policy": "LargeRefused"}}] + calls
        sc["calls"] = calls
        sc["family"] = "logix-window-%d" % S0
        sc["target"]["caps"] = [rnd.choice([1, 2, 3, 7, 99, 100, 333, S0 - 8, S0 - 9, S0]) for _ in range(rnd.choice([0, 4, 30]))]
        out.append(sc)
    return out


def bigindex_sessions(rnd, n):
    """Element indices and instance ids that need 16 / 32-bit logical segments (255 / 256, 65535 / 65536, 70000), and explicit
    {n} on multi-dimensional arrays."""
    out = []
    for i in range(n):
        big = [{"name": "BIGX", "code": 0xC2, "dims": [70010]}, {"name": "GRID", "code": 0xC4, "dims": [2, 3]}, {"name": "CUBE", "code": 0xC3, "dims": [2, 3, 4]}]
        sc = logix_rw.session(rnd, 3000 + i, prefix="bigx", n_calls=0, big=big, n_tags=2, caps=False)
        sc["project"]["symbols"].sort(key=lambda s: s["iid"])
        idx = [255, 256, 300, 65535, 65536, 70000, rnd.randint(257, 70009)]
        rd = S.read_call([R([("BIGX", [j])]) for j in idx] + [R([("BIGX", [65530])], count=10), R([("BIGX", [250])], count=12)])
        wr = S.write_call([R([("BIGX", [300])], value=1), R([("BIGX", [70000])], value=2), R([("BIGX", [65536])], value=-3), R([("BIGX", [255])], count=2, value=[4, 5])])
        g1 = S.write_call([R([("GRID", [0, 0])], count=6, value=[1, 2, 3, 4, 5, 6])])
        g2 = S.write_call([R([("CUBE", [0, 1, 0])], count=12, value=list(range(12))), R([("GRID", [1, 0])], count=3, value=[7, 8, 9])])
        gr = S.read_call([R([("GRID", [0, 0])], count=6), R([("CUBE", [0, 0, 0])], count=24), R([("CUBE", [1, 2, 3])]), R([("GRID", [0, 1])], count=4)])
        sc["calls"] = [{"api": "open"}, rd, wr, rd, g1, gr, g2, gr, {"api": "close"}]
        sc["family"] = "logix-bigindex"
        sc["call_seconds"] = 600
        out.append(sc)
    return out


def tiling_sessions(rnd, n):
    """Fragmented writes whose value is an exact multiple (2x, 3x) of what one fragment carries, and one element more / less:
    the payload of a fragment depends on the way the tag is addressed, so a dry run measures it first (offset field of the
    second fragment of a long write)."""
    from .. import session
    out = []
    for i in range(n):
        pol = ["LargeRefused", "LargeOK"][i % 2]
        code, es = [(0xC2, 1), (0xC3, 2), (0xC4, 4)][i % 3]
        nm = rnd.choice(["TL", "Tile_With_A_Longer_Name"])
        big = [{"name": nm, "code": code, "dims": [13000 // es]}, {"name": "k", "code": 0xC4, "dims": []}]
        sc = logix_rw.session(rnd, 1300 + i, prefix="tile", n_calls=0, big=big, policy=pol, caps=False, n_tags=1)
        sc["calls"] = [{"api": "open"}, S.write_call([R([(nm, [])], count=13000 // es, value=[0] * (13000 // es))]), {"api": "close"}]
        offs, seen = [], 0
        for e in session.run_scenario(sc)["events"]:
            b = e.get("b")
            if e["k"] == "tx" and b and b[0] == 0x70 and len(b) > 60 and b[46] == 0x53:
                o = 48 + 2 * b[47] + 4
                offs.append(b[o] | b[o + 1] << 8 | b[o + 2] << 16 | b[o + 3] << 24)
        if len(offs) < 2 or offs[1] % es:
            continue
        L = offs[1] // es               # elements per fragment
        calls = [{"api": "open"}]
        for cnt in (2 * L, 3 * L, 2 * L + 1, 2 * L - 1, L):
            vals = [rnd.randint(1, 100) for _ in range(cnt)]
            rd = S.read_call([R([(nm, [])], count=cnt + 2)])
            calls += [S.write_call([R([(nm, [])], count=cnt, value=vals)]), rd,
                      S.write_call([R([(nm, [])], count=cnt, value=vals[::-1]), R([("k", [])], value=cnt)]), rd]
        calls.append({"api": "close"})
        sc["calls"] = calls
        sc["family"] = "logix-tiling"
        out.append(sc)
    return out


def families(ctx, rnd, thorough, which):
    scs = []
    if "rw" in which:
        scs += [logix_rw.session(rnd, i) for i in range(600 if thorough else 56)]
    if "rw" in which or "redownload" in which:
        scs += logix_rw.redownload_sessions(rnd, 60 if thorough else 8)
    if "bits" in which:
        scs += logix_rw.bits_sessions(rnd, 120 if thorough else 14)
    if "long" in which:
        for i in range(40 if thorough else 6):
            scs.append(logix_rw.session(rnd, 1000 + i, prefix="long", n_calls=3, max_reqs=rnd.choice([40, 120, 300]), n_tags=30))
    if "long" in which:
        # many requests with long symbolic names on the small connection: packets filled to the brim by REQUEST size
        for i, L in enumerate([40, 39, 21, 9, 38, 30, 12, 40, 33, 25][:10 if thorough else 5]):
            nm = rnd.randint(45, 90)
            # name lengths vary within a session (from i = 3 on freely), so packet fills land on every residue below the limit
            big = [{"name": ("N%02d_" % j + "x" * L)[:max(4, L - (j % 3) if i < 3 else rnd.randint(4, L))], "code": rnd.choice([0xC4, 0xC3, 0xC2]), "dims": []}
                   for j in range(nm)]
            sc = logix_rw.session(rnd, 1100 + i, prefix="brim", n_calls=0, big=big, policy="LargeRefused", caps=False, n_tags=1)
            rd = S.read_call([R([(b["name"], [])]) for b in big])
            wr = S.write_call([R([(b["name"], [])], value=rnd.randint(0, 100)) for b in big])
            sc["calls"] = [{"api": "open"}, rd, wr, rd, {"api": "close"}]
            sc["family"] = "logix-brim"
            scs.append(sc)
    if "rw" in which or "long" in which:
        scs += bigindex_sessions(rnd, 4 if thorough else 2)
    if "long" in which:
        # 300 short-named one-byte tags: one multi-service packet with more than 255 members on the large connection
        big = [{"name": "b%d" % j, "code": 0xC2, "dims": []} for j in range(262)]
        sc = logix_rw.session(rnd, 1200, prefix="many", n_calls=0, big=big, policy="LargeOK", caps=False, n_tags=1)
        sc["calls"] = [{"api": "open"}, S.read_call([R([(b["name"], [])]) for b in big]), {"api": "close"}]
        sc["family"] = "logix-many"
        scs.append(sc)
        # a target that hands out one byte per fragment: a transfer of many hundred fragments is still one read
        big = [{"name": "SLOW", "code": 0xC4, "dims": [150]}]
        sc = logix_rw.session(rnd, 1201, prefix="slow", n_calls=0, big=big, policy="LargeRefused", caps=False, n_tags=1)
        sc["target"]["caps"] = [1] * 700
        sc["target"]["caps_tags_only"] = True       # the upload during open is not slowed down
        sc["calls"] = [{"api": "open"}, S.read_call([R([("SLOW", [])], count=150), R([("NoSuchTag", [])])]), {"api": "close"}]
        sc["family"] = "logix-slow-target"
        sc["budget"] = 20000
        scs.append(sc)
    if "long" in which or "window" in which:
        scs += tiling_sessions(rnd, 6 if thorough else 2)
    if "window" in which:
        scs += window_sessions(rnd, 300 if thorough else 21, thorough)
    if "invalid" in which:
        for i in range(200 if thorough else 24):
            scs.append(logix_rw.session(rnd, 2000 + i, prefix="inv", n_calls=4, max_reqs=8, invalid_rate=0.4))
    if "inject" in which:
        scs += logix_rw.inject_sessions(rnd, 300 if thorough else 24)
    return scs


def run_family(ctx, which, salt, rule):
    thorough = ctx.tier == "thorough"
    rnd = random.Random(ctx.seed * 9973 + salt)
    scs = families(ctx, rnd, thorough, which)
    import os
    if os.environ.get("VERIF_AUDIT") and os.environ.get("VERIF_AUDIT_FAST"):
        # mutation audit only: the light families first, the heavy window sessions only if nothing was reported yet
        light = [s for s in scs if not s["family"].startswith("logix-window")]
        heavy = [s for s in scs if s["family"].startswith("logix-window")]
        results = se.run_all(ctx, light, "lx") if light else []
        se.report(ctx, results, keyfn)
        if not ctx.viol and heavy:
            r2 = se.run_all(ctx, heavy, "lx")
            se.report(ctx, r2, keyfn)
            results += r2
        ctx.traces = len(results)
    else:
        results = se.run_all(ctx, scs, "lx")
        ctx.traces = len(results)
        se.report(ctx, results, keyfn)
    n = 0
    for s in scs:
        for c in s["calls"]:
            if c["api"] in ("read", "write"):
                n += len(c["tags"])
                for t in c["tags"][:50]:
                    ctx.nontrivial.add(s["id"] + ":" + c["api"] + ":" + t)
    ctx.evaluations = n
    ctx.rule = rule + "; evaluations = read/write requests judged; distinct = distinct (session, api, request string)"
    ex = scs[0]
    ctx.sample({"session": ex["id"], "calls": [{"api": c["api"], "tags": c.get("tags", [])[:6]} for c in ex["calls"][:5]],
                "fw": ex["target"]["identity"]["rev_major"], "policy": ex["target"]["policy"]})
    ctx.assumptions += ["a Logix controller answers an unfragmented read that does not fit with status 0x06 + partial data",
                        "overlapping writes in one call are not generated except several bits of one word (applied in request order)",
                        "writing a string zero-fills the rest of DATA (what the library sends); LEN > capacity in memory is not generated",
                        "the reference target (vf/simtarget.py) is not trusted: every reply is recomputed by LogixTarget.tla"]
    return scs


def replay(path):
    from . import logix_common as lc
    return lc.replay(path)
