"""C13 - replies are classified by their status words; bad replies cannot pass or crash.
R3: generic messages answered with every general status 0..255 x extended-status sizes 0-2 on the three transports; tag
    reads / writes / fragmented transfers / bit writes / multi-service packets with a status injected into the k-th service;
    every truncation and seeded byte corruptions (and header-only encapsulation errors) of otherwise valid replies.
    TraceSession clauses C13:* decide: truthy iff status ok, non-empty error naming the status, no success from a reply too
    short to hold its status words, only library exceptions."""
import json
import random

from .. import core, tlc, scenarios as S, session_engine as se
from . import c14


def status_sessions(rnd, thorough):
    scs = []
    combos = [(st, ne, mode) for st in range(256) for ne in (0, 1, 2) for mode in ("connected", "ucmm", "ucsend")]
    if not thorough:
        combos = [c for c in combos if c[0] in (0, 1, 2, 3, 4, 5, 6, 8, 0x0F, 0x13, 0x14, 0x15, 0x1E, 0x20, 0x26, 0x7F, 0x80, 0xFE, 0xFF) or rnd.random() < 0.12]
    rnd.shuffle(combos)
    for i in range(0, len(combos), 10):
        route = [S.port_seg("bp", 2)]
        calls, script = [{"api": "open"}], []
        for st, ne, mode in combos[i:i + 10]:
            ext = [rnd.choice([0, 1, 0x2105, 0xFFFF, rnd.randint(0, 65535)]) for _ in range(ne)]
            known = [x for x in se.ext_texts() if x[0] == st]
            if known and ne:                          # a pair the library has a text for, in its one-word and its two-word form
                ext = [rnd.choice(known)[1]] + ([0] if ne == 2 else [])
            data = [] if st else [rnd.getrandbits(8) for _ in range(rnd.choice([0, 2, 8]))]
            c, s = S.generic_call(rnd, route, mode=mode, script={"status": st, "ext": ext, "data": data})
            calls.append(c)
            script.append(s)
        calls.append({"api": "close"})
        scs.append({"id": "st%d" % i, "family": "status", "target": {"policy": "LargeOK", "script": script, "identity": S.identity()},
                    "driver": {"kind": "cip", "path": "10.0.0.9/bp/2", "route": route}, "calls": calls})
    return scs


def corrupt_sessions(rnd, n):
    """A clean dry run tells which reply ordinals answer intent frames; one of them is corrupted in the real run."""
    from .. import session
    base = c14.gen(rnd, n, prefix="cr")
    out = []
    for sc in base:
        for s in sc["target"]["script"]:
            s["status"] = 0 if rnd.random() < 0.8 else s["status"]
        tr = session.run_scenario(sc)
        ordinal, cands, lens, in_generic = 0, [], {}, False
        for e in tr["events"]:
            if e["k"] == "call":
                in_generic = e["api"] == "generic"
            if e["k"] in ("rx", "lost"):
                ordinal += 1
                lens[ordinal] = len(e["b"])
                if in_generic and len(e["b"]) > 40 and not (e["b"][0] == 0x6F and e["b"][40] in (0xD4, 0xDB, 0xCE)):
                    cands.append(ordinal)
        if not cands:
            continue
        k = rnd.choice(cands)
        how = rnd.choice(["cut", "trunc", "trunc", "flip", "encap", "status32"])
        if how == "trunc":
            c = ["trunc", rnd.choice([24, 30, 32, 36, 38, 39, 40, 41, 42, 43, 44, 45, 46, 47, 48, 49, 50, 51, 52, lens[k] - 1, rnd.randint(24, lens[k] - 1)])]
        elif how == "cut":
            c = ["cut", rnd.choice([0, 1, 2, 4, 8, 12, 23, 24, 25, 30, 39, 40, 41, 42, 43, 44, 45, 46, 47, 48, 49, 50, lens[k] - 1, rnd.randint(0, lens[k] - 1)])]
        elif how == "flip":
            c = ["flip", rnd.randint(24, lens[k] - 1), 1 << rnd.randint(0, 7)]
        elif how == "status32":
            c = ["status32", rnd.choice([1, 0x64, 0x65, 0x10000, 0x640000, 0x7FFF0000, 0x00010001, 0x00FF0000])]
        else:
            c = ["encap", rnd.choice([1, 2, 3, 0x64, 0x65, 0x69, 0x10000, 0x640000])]
        sc2 = json.loads(json.dumps(sc))
        sc2["id"] = sc["id"] + "c"
        sc2["family"] = "corrupt-" + how
        sc2["target"]["corrupt"] = {str(k): c}
        out.append(sc2)
    return out


def error_trunc_sessions(rnd):
    """Error replies (general status # 0, 0-2 additional status words) cut at every offset around their status words."""
    scs = []
    n = 0
    for mode in ("connected", "ucmm", "ucsend"):
        base = 48 if mode == "connected" else 42                    # offset of the general status byte
        for st, ext in ((4, []), (5, [0x2105]), (0xFF, [0x2105, 1]), (8, []), (1, [0x0100])):
            for off in (base, base + 1, base + 2, base + 3, base + 4, base + 5):
                route = [S.port_seg("bp", 1)]
                c, sc_ = S.generic_call(rnd, route, mode=mode, script={"status": st, "ext": ext, "data": []})
                pre, spre = S.generic_call(rnd, route, mode="connected", script={"status": 0, "ext": [], "data": [1]})
                # replies: register(1), forward open(2), first generic(3), second generic(4)
                scs.append({"id": "et%d" % n, "family": "corrupt-error-trunc", "target": {"policy": "LargeOK", "script": [spre, sc_], "identity": S.identity(),
                                                                                          "corrupt": {"4": ["trunc", off]}},
                            "driver": {"kind": "cip", "path": "10.0.0.7/bp/1", "route": route}, "calls": [{"api": "open"}, pre, c, {"api": "close"}]})
                n += 1
    return scs


def reply_ordinals(tr):
    """Per call of a trace: api and the ordinals / lengths of the replies the target produced during it."""
    ordinal, calls, cur = 0, [], None
    for e in tr["events"]:
        if e["k"] == "call":
            cur = {"api": e["api"], "ords": [], "lens": {}}
            calls.append(cur)
        if e["k"] in ("rx", "lost") and cur is not None:
            ordinal += 1
            cur["ords"].append(ordinal)
            cur["lens"][ordinal] = len(e["b"])
    return calls


def corrupt_one_call(rnd, base, kinds=("trunc", "trunc", "trunc", "trunc", "cut", "flip", "flip", "status32", "encap"), family="tag-corrupt"):
    """For each base session: a dry run tells which replies belong to its read / write calls; one of them is corrupted and
    the corrupted call becomes the last data call of the session (what the target did is then unknown to the caller)."""
    from .. import session
    out = []
    for sc in base:
        calls = reply_ordinals(session.run_scenario(sc))
        idx = [j for j, c in enumerate(calls) if c["api"] in ("read", "write") and c["ords"]]
        if not idx:
            continue
        j = rnd.choice(idx)
        k = rnd.choice(calls[j]["ords"])
        ln = calls[j]["lens"][k]
        how = rnd.choice(kinds)
        if how == "trunc":
            c = ["trunc", rnd.choice([24, 32, 40, 44, 45, 46, 47, 48, 49, 50, 51, 52, 53, 54, 55, 56, 58, 60, ln - 2, ln - 1, ln - 1, rnd.randint(24, ln - 1)])]
        elif how == "cut":
            c = ["cut", rnd.choice([0, 4, 23, 24, 44, 50, ln - 1])]
        elif how == "flip":
            # half of the flips hit the first bytes of the CIP reply (service, status, count and offset table of a multi-service reply)
            hi = min(ln - 1, 70) if rnd.random() < 0.5 and ln > 47 else ln - 1
            c = ["flip", rnd.randint(46 if hi <= 70 and ln > 47 else 24, hi), 1 << rnd.randint(0, 7)]
        elif how == "status32":
            c = ["status32", rnd.choice([1, 0x64, 0x65, 0x10000, 0x7FFF0000])]
        else:
            c = ["encap", rnd.choice([1, 2, 3, 0x64, 0x65, 0x69])]
        sc2 = json.loads(json.dumps(sc))
        sc2["id"] = sc["id"] + "c"
        sc2["calls"] = sc["calls"][:j + 1] + [{"api": "close"}]
        sc2["family"] = family + "-" + how
        sc2["target"]["corrupt"] = {str(k): c}
        out.append(sc2)
    return out


def tag_corrupt_sessions(rnd, n):
    """Logix read / write (single, fragmented, multi-service, read-modify-write) and SLC calls one of whose replies is truncated
    (well framed, payload stops early), cut, bit-flipped or given an encapsulation error.  Only C13 is judged on that call."""
    from . import logix_rw, c18
    from .logix_rw import R
    base = []
    for i in range(n):
        big = [{"name": "BIGC", "code": 0xC4, "dims": [rnd.choice([200, 1500])]}] if i % 3 == 0 else None
        sc = logix_rw.session(rnd, i, prefix="tc", n_calls=2, max_reqs=6, invalid_rate=0.05, caps=False, big=big)
        if big:
            nel = big[0]["dims"][0]
            extra = [S.read_call([R([("BIGC", [])], count=nel)]), S.write_call([R([("BIGC", [])], count=nel, value=list(range(nel)))])]
            sc["calls"] = sc["calls"][:-1] + [rnd.choice(extra)] + [{"api": "close"}]
        base.append(sc)
    out = corrupt_one_call(rnd, base)
    slc = c18.gen(rnd, max(6, n // 5))
    for s in slc:
        s["id"] = "tcs" + s["id"]
    return out + corrupt_one_call(rnd, slc, family="slc-corrupt")


def frag_corrupt_sessions(rnd):
    """A fragmented read / write one of whose NON-final fragment replies carries an encapsulation error (the transfer goes on,
    the last fragment is good): the request did not succeed."""
    from .. import session
    from . import logix_rw
    from .logix_rw import R
    out = []
    for j, (nel, pol) in enumerate(((1500, "LargeOK"), (400, "LargeRefused"), (2500, "LargeOK"), (300, "LargeRefused"))):
        for api in ("read", "write"):
            sc = logix_rw.session(rnd, 700 + j, prefix="fc", n_calls=0, big=[{"name": "FRG", "code": 0xC4, "dims": [nel]}], n_tags=1, policy=pol, caps=False)
            call = S.read_call([R([("FRG", [])], count=nel)]) if api == "read" else S.write_call([R([("FRG", [])], count=nel, value=[rnd.randint(-9, 9) for _ in range(nel)])])
            sc["calls"] = [{"api": "open"}, call, {"api": "close"}]
            calls = reply_ordinals(session.run_scenario(sc))
            ords = next(c["ords"] for c in calls if c["api"] == api)
            for k in ords[:-1][:3]:
                sc2 = json.loads(json.dumps(sc))
                sc2["id"] = "fc%d%s%d" % (j, api[0], k)
                sc2["family"] = "fragment-encap-error"
                sc2["target"]["corrupt"] = {str(k): ["status32", rnd.choice([1, 0x64, 0x65])]}
                out.append(sc2)
    return out


def upload_corrupt_sessions(rnd, n):
    """open() (with its tag list upload) one of whose symbol-list / template replies carries an encapsulation error in front
    of a complete CIP body, or is truncated: the upload did not complete normally."""
    from .. import session
    from . import logix_rw
    out = []
    for i in range(n):
        sc = logix_rw.session(rnd, 900 + i, prefix="uc", n_calls=0, caps=False, n_tags=rnd.choice([3, 12, 40]))
        sc["calls"] = [{"api": "open"}, {"api": "close"}]
        tr = session.run_scenario(sc)
        ordinal, cand, last_tx = 0, [], None
        for e in tr["events"]:
            if e["k"] == "tx":
                last_tx = e["b"]
            if e["k"] in ("rx", "lost"):
                ordinal += 1
                if last_tx and len(last_tx) > 46 and last_tx[0] == 0x70 and last_tx[46] in (0x55, 0x4C, 0x03):
                    cand.append((ordinal, last_tx[46]))
        sym = [k for k, svc in cand if svc == 0x55]
        if not sym:
            continue
        k = rnd.choice(sym) if i % 3 else rnd.choice([c[0] for c in cand])
        sc2 = json.loads(json.dumps(sc))
        sc2["id"] = "uc%d" % i
        sc2["family"] = "upload-encap-error"
        sc2["target"]["corrupt"] = {str(k): ["status32", rnd.choice([1, 0x64, 0x65, 0x10000])]}
        out.append(sc2)
    return out


def run(ctx):
    thorough = ctx.tier == "thorough"
    rnd = random.Random(ctx.seed * 1009 + 13)
    core.assert_repo()
    r = tlc.must_pass(tlc.run("EncapModel", "EncapModel.cfg", workers=8, timeout=600), "EncapModel")
    ctx.add_tlc(r, "R1")
    scs = status_sessions(rnd, thorough)
    scs += corrupt_sessions(rnd, 1500 if thorough else 250)
    try:
        from . import logix_rw
        scs += logix_rw.inject_sessions(rnd, 400 if thorough else 60)
        scs += upload_corrupt_sessions(rnd, 60 if thorough else 10)
    except ImportError:
        pass
    scs += tag_corrupt_sessions(rnd, 1200 if thorough else 200)
    scs += error_trunc_sessions(rnd)
    scs += frag_corrupt_sessions(rnd)
    results = se.run_all(ctx, scs, "c13")
    ctx.traces = len(results)
    se.report(ctx, results, lambda r, clause, ev: {"family": r["sc"]["family"], "api": ev.get("api", ev.get("k", ""))})
    ctx.evaluations = sum(len(s["calls"]) for s in scs)
    for s in scs:
        ctx.nontrivial.add(json.dumps([s["family"], s["target"].get("corrupt"), [x.get("status") for x in s["target"].get("script", [])],
                                       s["target"].get("inject")], sort_keys=True))
    ctx.rule = ("generic messages answered with general status codes (all 256 in thorough; documented + sampled codes in quick) x "
                "extended-status sizes 0-2 x 3 transports; replies to intent frames truncated at boundary offsets / bit-flipped / "
                "replaced by header-only encapsulation errors; tag services with injected statuses; distinct = distinct "
                "(family, corruption, status vector)")
    ctx.sample({"scenario": {k: v for k, v in scs[0].items() if k != "target"}, "script": scs[0]["target"]["script"][:3]})
    ctx.assumptions += ["status 0x06 counts as success only for Read Tag Fragmented, symbol-list and template reads; for the other "
                        "services pycomm3 lists as multi-packet it is unspecified", "status texts are data exported from the code"]


def replay(path):
    from . import logix_common as lc
    return lc.replay(path)
