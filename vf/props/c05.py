"""C05 - uploaded tag list and type definitions mirror the controller.
R3: LogixDriver.open / get_tag_list on generated projects (every excluded symbol category, module I/O tags, sparse instance
    ids, nested UDTs, packed BOOLs, strings, program scope) under several pagination / template-fragmentation schedules and
    firmware generations; the Symbol / Template object replies are recomputed by LogixTarget.tla and the resulting tags /
    data_types / programs / tasks are compared with LogixView!UploadClause."""
import copy
import json
import random

from .. import core, tlc, scenarios as S, session_engine as se
from ..projgen import gen_project
from . import logix_rw


def gen(rnd, n_projects, schedules):
    scs = []
    for i in range(n_projects):
        fw, micro, ident = logix_rw.config(rnd, i)
        proj, mem, _ = gen_project(rnd, n_tags=rnd.choice([1, 5, 15, 40]), programs=rnd.choice([0, 1, 2, 3]), junk=rnd.random() < 0.8,
                                   iid_base=rnd.choice([None, 0, 250, 65530]), huge=(i % 11 == 4))
        for k in range(schedules):
            allp = rnd.random() < 0.7
            pages = {0: [], 1: [1] * 400, 2: [rnd.choice([1, 2, 3, 7]) for _ in range(300)]}[k % 3]
            caps = {0: [], 1: [1] * 60 + [rnd.choice([2, 3, 5, 8, 13, 50]) for _ in range(600)], 2: [rnd.choice([1, 4, 16, 64, 300]) for _ in range(400)]}[k % 3]
            calls = [{"api": "open", "view": 1}]
            if rnd.random() < 0.5:
                star = rnd.random() < 0.6
                calls.append({"api": "get_tag_list", "program": "*" if star else None, "view": 1, "intent": {"allprogs": 1 if star else 0}})
            progs = [x["name"][len("Program:"):] for x in proj["symbols"] if x["kind"] == "program"]
            if progs and rnd.random() < 0.4:                  # the tags of one named program only
                pn = rnd.choice(progs)
                calls.append({"api": "get_tag_list", "program": pn, "view": 1, "intent": {"allprogs": 0, "named": [ord(ch) for ch in pn]}})
            calls.append({"api": "close"})
            scs.append({"id": "up%d_%d" % (i, k), "family": "upload" + ("-micro800" if micro else ""),
                        "target": {"policy": rnd.choice(["LargeOK", "LargeRefused"]), "identity": ident, "pages": pages, "caps": caps},
                        "project": proj, "mem": mem,
                        "driver": {"kind": "logix", "path": "10.5.5.%d" % (i % 250 + 1), "route": [] if micro else [S.port_seg("bp", 0)],
                                   "init_program_tags": allp}, "calls": calls, "budget": 400000, "call_seconds": 180})
    # a page of the symbol list refused by the controller (busy): the upload fails or is repeated, never returns a partial list
    for j in range(max(4, n_projects // 3)):
        sc = copy.deepcopy(scs[(j * 3 + 1) % len(scs)])
        sc["id"] = "uprf%d" % j
        sc["family"] += "-page-refused"
        sc["target"]["pages"] = [rnd.choice([1, 2, 3]) for _ in range(300)]
        sc["target"]["pagefail"] = {str(rnd.choice([1, 2, 2, 3, 4, 6])): rnd.choice([2, 5, 8, 0x10])}
        scs.append(sc)
    return scs


def run(ctx):
    thorough = ctx.tier == "thorough"
    rnd = random.Random(ctx.seed * 4099 + 5)
    scs = gen(rnd, 300 if thorough else 22, 3)
    scs += logix_rw.redownload_sessions(rnd, 40 if thorough else 8, prefix="uprd")        # a second upload after a program download
    scs += logix_rw.redownload_sessions(rnd, 12 if thorough else 3, prefix="upfd", failing=True)
    results = se.run_all(ctx, scs, "c05", shard_traces=6)
    ctx.traces = len(results)
    se.report(ctx, results, lambda r, clause, ev: {"family": r["sc"]["family"], "fw": r["sc"]["target"]["identity"]["rev_major"], "api": ev.get("api", ev.get("k", ""))})
    ctx.evaluations = sum(len(s["project"]["symbols"]) for s in scs)
    for s in scs:
        ctx.nontrivial.add(s["id"])
    ctx.rule = ("projects of 1..40 user tags plus program / routine / task / map / connection / system / flagged symbols and module "
                "I/O tags, 0-3 programs, sparse instance ids incl. > 255 and > 65535, firmware 16/19/20/21/32 and Micro800, each "
                "uploaded under 3 schedules (one reply, one symbol per page + one byte per template fragment, random); "
                "evaluations = symbols offered; distinct = (project, schedule)")
    ctx.sample({"id": scs[0]["id"], "symbols": [s["name"] for s in scs[0]["project"]["symbols"]][:25], "templates": [t["name"] for t in scs[0]["project"]["templates"].values()]})
    ctx.assumptions += ["template serialisation and Symbol attribute layout per Logix 5000 Data Access; external access compared only "
                        "for firmware >= 18", "the set of uploaded data types = templates reachable from the visible tags"]


def replay(path):
    from . import logix_common as lc
    return lc.replay(path)
