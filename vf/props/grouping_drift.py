"""R2 for Grouping.tla: every request list TLC enumerates (with the placement the design model computes for it: which requests
share a multi-service packet, which become fragmented transfers) is replayed into the real LogixDriver on the 500-byte
connection, and the packets the driver really sends are compared with the model's placement.  This binds the design model to
the code (so that its exhaustive results speak about the code); it is INFORMATIONAL for the properties: another placement is
not by itself a violation, so disagreement is recorded in the evidence (design_conformance) and printed, not reported as a
violation."""
import multiprocessing as mp

from .. import scenarios as S, tlc
from ..projgen import gen_project

R = S.req
SIZES = [1, 236, 238, 240, 242, 478, 480, 482]
PATHS = [4, 40]


def tag_name(d, p, k):
    L = p - 2
    base = "%s%d%d" % ("abcdefgh"[SIZES.index(d)], PATHS.index(p), k)          # 3 characters, unique
    if L == 2:
        return "%s%d" % ("abcdefghijklmnopqrstuvwx"[SIZES.index(d) * 3 + k], PATHS.index(p))
    return base + "x" * (L - len(base))


def project():
    import random
    rnd = random.Random(5)
    big = [{"name": tag_name(d, p, k), "code": 0xC2, "dims": [482]} for d in SIZES for p in PATHS for k in range(3)]
    proj, mem, _ = gen_project(rnd, n_tags=0, programs=0, junk=False, big_tags=big, wide=False)
    return proj, mem


def observed(tr, names):
    """-> (groups, frags) as lists of 1-based request indices, from the frames of the read / write call."""
    groups, frags, in_call = [], [], False

    def idx_of(path):
        # ANSI extended symbolic segment: 0x91, length, name
        if len(path) >= 2 and path[0] == 0x91:
            nm = bytes(path[2:2 + path[1]]).decode("latin1")
            return names.get(nm)
        return None
    seen_frag = set()
    for e in tr["events"]:
        if e["k"] == "call":
            in_call = e["api"] in ("read", "write")
        if not in_call or e["k"] != "tx" or e["b"][0] != 0x70:
            continue
        item = e["b"][46:]
        svc, plen = item[0], item[1] * 2
        path, rest = item[2:2 + plen], item[2 + plen:]
        if svc == 0x0A:
            n = rest[0] | rest[1] << 8
            offs = [rest[2 + 2 * i] | rest[3 + 2 * i] << 8 for i in range(n)]
            g = []
            for o in offs:
                m = rest[o:]
                g.append(idx_of(m[2:2 + m[1] * 2]))
            groups.append(g)
        elif svc in (0x52, 0x53):
            i = idx_of(path)
            if i not in seen_frag:
                seen_frag.add(i)
                frags.append(i)
        elif svc in (0x4C, 0x4D):
            groups.append([idx_of(path)])
    return groups, frags


def _one(args):
    from .. import session
    proj, mem, mode, reqs, groups, frags = args
    used, names, tags = {}, {}, []
    for i, (d, p) in enumerate(reqs):
        if d < 0:
            tags.append(R([("Nope_%d" % i, [])], value=1 if mode == "write" else None))
            continue
        k = used.get((d, p), 0)
        used[(d, p)] = k + 1
        nm = tag_name(d, p, k)
        names[nm] = i + 1
        tags.append(R([(nm, [])], count=d, value=[1] * d if mode == "write" else None))
    call = S.read_call(tags) if mode == "read" else S.write_call(tags)
    sc = {"id": "gd", "family": "grouping", "target": {"policy": "LargeRefused", "identity": S.identity(fw=20)}, "project": proj, "mem": mem,
          "driver": {"kind": "logix", "path": "10.4.4.4", "route": [S.port_seg("bp", 0)], "init_program_tags": False},
          "calls": [{"api": "open"}, call, {"api": "close"}]}
    tr = session.run_scenario(sc)
    og, of = observed(tr, names)
    return og == [list(g) for g in groups] and of == list(frags), (mode, reqs, [list(g) for g in groups], list(frags), og, of)


def run(ctx, thorough):
    res = tlc.must_pass(tlc.run("Grouping", "Grouping_gen3.cfg" if thorough else "Grouping_gen.cfg", workers=1, timeout=1800), "Grouping_gen")
    ctx.add_tlc(res, "R2")
    proj, mem = project()
    behs = [(proj, mem, mode, [tuple(x) for x in reqs], groups, frags) for _, mode, reqs, groups, frags in res.tuples("BEH")
            if len([1 for d, p in reqs if d >= 0 and [x for x in reqs].count([d, p]) > 3]) == 0]
    with mp.Pool(14) as pool:
        out = pool.map(_one, behs, chunksize=8)
    bad = [info for ok, info in out if not ok]
    ctx.extra["design_conformance"] = {"model": "Grouping.tla", "behaviours_replayed": len(out), "conform": len(out) - len(bad),
                                       "first_disagreement": bad[0] if bad else None}
    if bad:
        print("NOTE property=%s the driver places requests differently from Grouping.tla in %d of %d behaviours (informational): %r"
              % (ctx.pid, len(bad), len(out), bad[0]))
    return len(out), len(bad)
