from . import logix_checks as lc
from .. import tlc

replay = lc.replay
from .c01 import r1


def run(ctx):
    r1(ctx)
    from . import grouping_drift
    grouping_drift.run(ctx, ctx.tier == "thorough")           # R2: Grouping.tla's placements replayed into the real driver (informational)
    lc.run_family(ctx, ("window", "long"), 4,
                  "tags of every size in windows around the connection size and its multiples (500 and 4000), element widths 1/2/4/8, "
                  "read and written alone and next to other requests, groups of mid-sized reads, target fragment capacities "
                  "{1,2,3,7,99,...,S-8,S}; every connected frame checked against the granted size, every fragment offset checked")
