"""C09 - emitted CIP paths denote the addressed object.
R1: PathModel (strict parser inverts the canonical encoder, rejects malformed pads / formats / counts).
R3: outputs of LogicalSegment / PortSegment / DataSegment / PADDED_EPATH.encode / request_path / tag_request_path for
    boundary-crossed inputs are parsed by EPath!ParsePadded inside TLC and compared with the intended segment list."""
import json
import random

from .. import core, tlc
from .. import codec_engine as ce
from ..values import int_term

LT = {"class": "class_id", "instance": "instance_id", "member": "member_id", "attr": "attribute_id",
      "cpoint": "connection_point"}


def big(n):
    return int_term(n)["i"]


def seg_log(lt, n):
    return {"k": "log", "lt": lt, "v": big(n)}


def seg_sym(name):
    return {"k": "sym", "name": list(name.encode("latin1"))}


def seg_port(port, link):
    return {"k": "port", "port": port, "link": list(link)}


class Rec:
    def __init__(self):
        self.events, self.meta = [], []

    def path(self, fn, label, intent, sized, padlen, shape):
        from pycomm3.exceptions import DataError
        try:
            r = fn()
            out = {"kind": "bytes", "b": list(r)} if isinstance(r, (bytes, bytearray)) else {"kind": "none"}
        except Exception as ex:
            out = {"kind": "exc", "cls": type(ex).__name__, "data": 1 if isinstance(ex, DataError) else 0}
        self.events.append({"op": "path", "intent": intent, "sized": 1 if sized else 0, "padlen": 1 if padlen else 0, "out": out})
        self.meta.append({"label": label, "shape": shape})


NAMES = ["a", "ab", "Tag1", "x_y", "Program:Main", "LongTagName_0123456789_abcdefghij_40ch", "T", "tag_odd"]


def gen(rec, rnd, thorough):
    from pycomm3.cip import LogicalSegment, PortSegment, DataSegment, PADDED_EPATH
    from pycomm3.packets.util import request_path, tag_request_path
    # (a) logical segments of every type / width, int and bytes inputs
    vals = set(range(0, 1024)) | {65534, 65535, 65536, 65537, 2 ** 24, 2 ** 31 - 1, 2 ** 31, 2 ** 32 - 2, 2 ** 32 - 1}
    vals |= set(range(0, 65536, 1 if thorough else 257))
    vals |= {rnd.randint(65536, 2 ** 32 - 1) for _ in range(300 if thorough else 60)}
    for lt, name in LT.items():
        for v in sorted(vals):
            if lt != "instance" and not thorough and v > 1100 and v % 7:
                continue
            rec.path(lambda: PADDED_EPATH.encode([LogicalSegment(v, name)]), "logical:" + lt, [seg_log(lt, v)], False, False,
                     "logical-%dbit" % (8 if v < 256 else 16 if v < 65536 else 32))
        for v, w in ((5, 1), (255, 1), (256, 2), (65535, 2), (65536, 4), (2 ** 32 - 1, 4), (7, 2), (9, 4)):
            rec.path(lambda: PADDED_EPATH.encode([LogicalSegment(v.to_bytes(w, "little"), name)], length=True),
                     "logical-bytes:" + lt, [seg_log(lt, v)], True, False, "logical-bytes-%d" % w)
    # (b) request_path
    ids = [1, 2, 0x6B, 255, 256, 300, 65535, 65536, 70000, 2 ** 32 - 1]
    for c in ids:
        for i in ids + [0]:
            for a in [None, 1, 7, 255, 256, 65535]:
                intent = [seg_log("class", c), seg_log("instance", i)] + ([seg_log("attr", a)] if a is not None else [])
                rec.path(lambda: request_path(c, i, a if a is not None else b""), "request_path", intent, True, False, "request_path")
    for c, i, a in ((b"\x6b", b"\x01", b""), (b"\x02", b"\x01\x00", b"\x05"), (b"\x00\x01", b"\x70\x11\x01\x00", b"\x01\x00")):
        intent = [seg_log("class", int.from_bytes(c, "little")), seg_log("instance", int.from_bytes(i, "little"))]
        if a:
            intent.append(seg_log("attr", int.from_bytes(a, "little")))
        rec.path(lambda: request_path(c, i, a), "request_path-bytes", intent, True, False, "request_path")
    # (c) tag paths from the documented grammar
    for _ in range(3000 if thorough else 700):
        levels = rnd.randint(1, 4)
        prog = rnd.random() < 0.25
        use_ids = rnd.random() < 0.5
        inst = rnd.choice([1, 5, 255, 256, 4000, 65535, 65536, 70000, 2 ** 31, 2 ** 32 - 1])
        parts, intent = [], []
        if prog:
            pn = "Program:" + rnd.choice(["Main", "P", "Prog_2", "OddNm"])
            parts.append(pn)
            intent.append(seg_sym(pn))
        for lv in range(levels):
            nm = rnd.choice(["a", "ab", "abc", "Tag_1", "member", "X" * rnd.randint(1, 40)])
            nidx = rnd.choice([0, 0, 1, 1, 2, 3])
            idx = [rnd.choice([0, 1, 255, 256, 65535, 65536, 100000, rnd.randint(0, 2 ** 31)]) for _ in range(nidx)]
            parts.append(nm + ("[%s]" % ",".join(str(x) for x in idx) if idx else ""))
            if lv == 0 and use_ids and not prog:
                intent += [seg_log("class", 0x6B), seg_log("instance", inst)]
            else:
                intent.append(seg_sym(nm))
            intent += [seg_log("member", x) for x in idx]
        tag = ".".join(parts)
        info = {"instance_id": inst}
        rec.path(lambda: tag_request_path(tag, info, use_ids), "tag_request_path", intent, True, False,
                 "tag-path" + ("-instance" if use_ids and not prog else "-symbolic"))
    # (d) routes
    links = [0, 1, 2, 17, 255, "0", "5", "255", "1.2.3.4", "10.11.12.13", "192.168.100.200", "10.0.0.1", "8.8.8.8"]
    ports = [("bp", 1), ("backplane", 1), ("enet", 2), ("dhrio-a", 2), ("dhrio-b", 3), ("dnet", 2), ("cnet", 2), ("dh485-a", 2),
             ("dh485-b", 3), (1, 1), (2, 2), (3, 3), (14, 14)]
    for _ in range(1500 if thorough else 400):
        n = rnd.randint(1, 4)
        segs, intent = [], []
        for _ in range(n):
            p, pn = rnd.choice(ports)
            l = rnd.choice(links)
            segs.append(PortSegment(p, l))
            lb = bytes([int(l)]) if (isinstance(l, int) or l.isdigit()) else l.encode()
            intent.append(seg_port(pn, lb))
        pl = rnd.random() < 0.5
        rec.path(lambda: PADDED_EPATH.encode(segs, length=True, pad_length=pl), "route", intent, True, pl, "route")
    # (e) symbolic segments of every length 1..60, and the program-scoped symbol list path of the tag upload
    for n in range(1, 61):
        nm = "".join(rnd.choice("abcXYZ_019") for _ in range(n))
        rec.path(lambda: PADDED_EPATH.encode([DataSegment(nm)], length=True), "symbol", [seg_sym(nm)], True, False, "symbol")
        rec.path(lambda: PADDED_EPATH.encode([DataSegment("Program:" + nm), LogicalSegment(0x6B, "class_id"),
                                              LogicalSegment(n * 1000, "instance_id")], length=True),
                 "program-symbol-list", [seg_sym("Program:" + nm), seg_log("class", 0x6B), seg_log("instance", n * 1000)], True, False, "symbol")


def run(ctx):
    thorough = ctx.tier == "thorough"
    r = tlc.must_pass(tlc.run("PathModel", "PathModel.cfg", workers=16, timeout=900), "PathModel")
    ctx.add_tlc(r, "R1")
    rnd = random.Random(ctx.seed * 31337 + 9)
    rec = Rec()
    gen(rec, rnd, thorough)
    fails = ce.judge(ctx, rec, "paths", module="TracePath", shard_events=8000)
    ctx.traces = ctx.evaluations = len(rec.events)
    for ev in rec.events:
        ctx.nontrivial.add(json.dumps(ev["intent"]))
    ctx.rule = ("logical segments: values 0..1023, every 257th (quick) / every (thorough) 16-bit value, 32-bit boundaries and "
                "random, x 5 logical types, int and bytes inputs; request_path over boundary ids; tag strings generated from the "
                "documented grammar (program scope, 1-4 levels, 0-3 indices, names 1..40, instance ids of all widths); port "
                "routes of 1-4 hops over every port alias and slot / IPv4 links; symbols of length 1..60.  distinct = distinct intents")
    for i in (0, len(rec.events) // 2, len(rec.events) - 1):
        ctx.sample({"label": rec.meta[i]["label"], "event": rec.events[i]})
    for idx, clause in fails:
        ev, meta = rec.events[idx], rec.meta[idx]
        if clause.startswith("MACHINERY"):
            raise core.Machinery(clause)
        ctx.violation(clause, {"label": meta["label"], "shape": meta["shape"]}, {"event": ev}, {"kind": "path-event", "event": ev, "label": meta["label"]})
    # routes as the target receives them over a session: Forward Open, Unconnected Send with the configured route, module
    # info of other slots in between, reconnects (TraceSession parses every route with EPath!ParsePadded)
    from . import c15
    from .. import session_engine as se
    scs = [s for s in c15.session_family(rnd, 240 if thorough else 90) if s["driver"]["kind"] == "cip"]
    # symbolic program-scope paths of paged tag-list uploads (every follow-up request names the same scope)
    from . import c05
    ups = [u for u in c05.gen(rnd, 40 if thorough else 8, 3) if u["target"]["pages"] and any(x["kind"] == "program" for x in u["project"]["symbols"])]
    scs += ups[:60 if thorough else 8]
    results = se.run_all(ctx, scs, "c09s")
    se.report(ctx, results, lambda r, clause, ev: {"label": "session-route", "shape": r["sc"]["family"]})
    ctx.traces += len(results)
    ctx.evaluations += sum(len(s["calls"]) for s in scs)
    ctx.assumptions += ["32-bit logical format (0b10) is accepted for every logical type; attribute id 0 is not generated "
                        "(request_path treats a falsy attribute as absent)"]


def replay(path):
    rec = json.load(open(path))
    if rec.get("replay", {}).get("kind") == "session":
        from . import logix_common as lc
        return lc.replay(path)
    print(json.dumps(rec, indent=1)[:3000])
    return 0
