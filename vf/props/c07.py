"""C07 - encodings are the CIP wire format (byte-for-byte agreement with the reference codec in both directions)."""
from .. import codec_families as cf
from . import codec_common as cc


def run(ctx):
    cc.r1(ctx)
    th = ctx.tier == "thorough"
    fams = [("elementary", cf.fam_elementary),
            ("codes", lambda r, rnd, t: cf.fam_codes(r, rnd)),
            ("strings", cf.fam_strings),
            ("structtag", lambda r, rnd, t: cf.fam_structtag(r, rnd, t, 500 if th else 100)),
            ("composites", lambda r, rnd, t: cf.fam_composites(r, rnd, t, 600 if th else 120))]
    cc.run_families(ctx, fams, 7)
    ctx.exhaustive = th
    ctx.rule = ("enc/dec events: all values and all byte patterns of every 1-byte type, every 2-byte value/pattern (thorough; "
                "stride sample in quick), boundary + walking-bit + random for 4/8-byte types incl. NaN/inf/denormals and "
                "float32 rounding ties, every type code 0..255 probed by value, strings, templates, composites; "
                "distinct = distinct (op, descriptor, input)")


replay = cc.replay
