"""C15 - connection-path strings parse to the documented route.
R1: ConnPathModel (every spelling of a 0-2 hop route has one meaning; corruptions leave the grammar or are rejected).
R3: parse_connection_path / PADDED_EPATH.encode on strings enumerated from the grammar and on their single-edit
    corruptions; the TLA+ interpreter ConnPath!Interp classifies each string (grammar / rejection set / neither) and the
    strict EPath parser decodes the route bytes."""
import json
import random

from .. import core, tlc
from .. import codec_engine as ce
from .. import scenarios as S

PORT_ALIASES = {1: ["bp", "backplane", "1"], 2: ["enet", "2", "dnet", "cnet", "dhrio-a", "dh485-a"], 3: ["dhrio-b", "dh485-b", "3"]}
SEPS = ["/", "\\", ","]


def cps(s):
    return [ord(c) for c in s]


class Rec:
    def __init__(self):
        self.events, self.meta = [], []

    def conn(self, s, auto, label):
        self.events.append({"op": "conn", "s": cps(s), "auto": 1 if auto else 0, "out": run_one(s, auto)})
        self.meta.append({"label": label, "s": s, "auto": auto})

    def spelling(self, spellings, auto, label):
        outs = []
        for s in spellings:
            o = run_one(s, auto)
            outs.append(o["route"] if o["kind"] == "ok" else {"kind": "exc"})
        self.events.append({"op": "spelling", "outs": outs})
        self.meta.append({"label": label, "s": spellings, "auto": auto})


def run_one(s, auto):
    from pycomm3.cip_driver import parse_connection_path
    from pycomm3.cip import PADDED_EPATH
    from pycomm3.exceptions import RequestError, DataError
    try:
        ip, port, segs = parse_connection_path(s, auto)
    except Exception as ex:
        return {"kind": "exc", "cls": type(ex).__name__, "req": 1 if isinstance(ex, RequestError) else 0}
    try:
        b = PADDED_EPATH.encode(segs, length=True)
        route = {"kind": "bytes", "b": list(b)}
    except Exception as ex:
        route = {"kind": "exc", "cls": type(ex).__name__, "data": 1 if isinstance(ex, DataError) else 0}
        # a route that was refused stays refused: the same segments encoded again (a retried Forward Open) never yield bytes
        try:
            b2 = PADDED_EPATH.encode(segs, length=True)
            route = {"kind": "bytes", "b": list(b2)}
        except Exception:
            pass
    return {"kind": "ok", "host": cps(ip) if isinstance(ip, str) else [], "port": port if isinstance(port, int) else 0, "route": route}


def spell(host, port, hops, rnd, names=None):
    s = host + (":%d" % port if port else "")
    for i, (p, l) in enumerate(hops):
        nm = names[i] if names else rnd.choice(PORT_ALIASES[p])
        s += rnd.choice(SEPS) + nm + rnd.choice(SEPS) + str(l)
    return s


def gen(rec, rnd, thorough):
    hosts = ["10.20.30.100", "192.168.1.1", "plc-1.example.com", "localhost", "1.2.3.4"]
    links = list(range(0, 256)) if thorough else [0, 1, 2, 9, 10, 17, 99, 100, 127, 128, 254, 255]
    iplinks = ["1.2.3.4", "10.11.12.13", "192.168.100.200", "10.0.0.1", "255.255.255.255", "0.0.0.0"]
    tcpports = [None, 1, 2, 80, 2222, 44818, 65533, 65534] + [rnd.randint(1, 65534) for _ in range(20 if thorough else 5)]
    good = []
    # grammar enumeration: 0-4 hops
    for _ in range(6000 if thorough else 1500):
        host = rnd.choice(hosts)
        port = rnd.choice(tcpports)
        n = rnd.choice([0, 1, 1, 2, 2, 3, 4])
        hops = [(rnd.choice([1, 2, 3]), rnd.choice(links + iplinks)) for _ in range(n)]
        s = spell(host, port, hops, rnd)
        good.append(s)
        rec.conn(s, False, "grammar")
        if rnd.random() < 0.15:
            rec.spelling([spell(host, port, hops, rnd) for _ in range(5)], False, "spellings")
    # every alias x every separator for one hop
    for p, names in PORT_ALIASES.items():
        for nm in names:
            for s1 in SEPS:
                for s2 in SEPS:
                    rec.conn("1.2.3.4" + s1 + nm + s2 + "3", False, "alias-sep")
    for l in range(0, 256):
        rec.conn("1.2.3.4/bp/%d" % l, False, "link-range")
        rec.conn("1.2.3.4/%d" % l, True, "auto-slot")
    # shortcuts of the Logix / SLC drivers
    for h in hosts:
        rec.conn(h, True, "bare-address")
        rec.conn(h, False, "bare-address")
        rec.spelling([h, h + "/bp/0", h + "\\backplane,0", h + "/1/0"], True, "shortcut-spelling")
        for slot in (0, 1, 7, 16, 255):
            rec.spelling([h + "/%d" % slot, h + "/bp/%d" % slot, h + ",backplane\\%d" % slot], True, "shortcut-spelling")
    # the result must not depend on earlier calls: callers own (and may modify, as the Micro800 initialisation does)
    # the route list they were given
    from pycomm3.cip_driver import parse_connection_path
    for h in hosts:
        for sfx, auto in (("", True), ("/3", True), ("/bp/1", False), ("/bp/1/enet/1.2.3.4", False)):
            try:
                parse_connection_path(h + sfx, auto)[2].clear()
            except Exception:
                pass
            rec.conn(h + sfx, auto, "after-caller-modified-previous-result")
    # rejection set
    for h in hosts[:2]:
        for bad in ("0", "65535", "65536", "99999", "-1", "abc", "", "4x", "70000", "44:818", "0:44818", "44818:", ":44818", "1:2:3"):
            rec.conn("%s:%s/bp/1" % (h, bad), False, "bad-tcp-port")
        for bad in ("256", "300", "1000", "99999", "abc", "1.2.3", "1.2.3.256", "1.2.3.4.5", "x.y.z.w", "-1"):
            rec.conn("%s/bp/%s" % (h, bad), False, "bad-link")
            rec.conn("%s/%s" % (h, bad), True, "bad-link-autoslot")
        for bad in ("foo", "backplan", "bpp", "ethernet", "b", "en-et"):
            rec.conn("%s/%s/1" % (h, bad), False, "bad-port-name")
        for odd in ("/bp", "/bp/1/enet", "/1/2/3", "/bp/1/enet/1.2.3.4/bp"):
            rec.conn(h + odd, False, "odd-segments")
        rec.conn(h + "/bp/1/enet", True, "odd-segments")
    # single-edit corruptions of grammar strings
    alphabet = "/\\,:.0159abpx "
    for s in rnd.sample(good, min(len(good), 2500 if thorough else 600)):
        k = rnd.randint(0, 2)
        i = rnd.randint(0, len(s) - 1)
        if k == 0:
            t = s[:i] + s[i + 1:]
        elif k == 1:
            t = s[:i] + rnd.choice(alphabet) + s[i:]
        else:
            t = s[:i] + rnd.choice(alphabet) + s[i + 1:]
        rec.conn(t, rnd.random() < 0.3, "corruption")
    # token-level corruptions
    for s in rnd.sample(good, min(len(good), 1200 if thorough else 300)):
        toks = s.replace("\\", "/").replace(",", "/").split("/")
        if len(toks) < 2:
            continue
        j = rnd.randint(1, len(toks) - 1)
        k = rnd.randint(0, 2)
        if k == 0:
            toks.pop(j)
        elif k == 1:
            toks.insert(j, rnd.choice(["bp", "7", "zz", "1.2.3.4", "256"]))
        else:
            toks[j] = rnd.choice(["bp", "300", "zz", "1.2.3.4", "enet", "0"])
        rec.conn("/".join(toks), False, "token-corruption")


def session_family(rnd, n):
    """The route / host / port as the TARGET sees them: real drivers connect with path strings from the grammar."""
    from ..projgen import small_project
    from . import c18
    scs = []
    for i in range(n):
        kind = ["cip", "logix", "slc"][i % 3]
        host = rnd.choice(["10.20.30.100", "192.168.1.1", "plc-1.example.com", "1.2.3.4"])
        port = rnd.choice([None, None, 44818, 2222, 1, 65534])
        nh = rnd.choice([0, 1, 1, 2, 3]) if kind == "cip" else rnd.choice([0, 1, 2, 2, 3])
        hops = [(rnd.choice([1, 2, 3]), rnd.choice([0, 1, 5, 17, 255, "10.11.12.13", "1.2.3.4"])) for _ in range(nh)]
        s = host + (":%d" % port if port else "")
        if kind != "cip" and rnd.random() < 0.4:                     # driver shortcuts: bare address / address + slot
            slot = rnd.choice([None, 0, 1, 7])
            s += "" if slot is None else rnd.choice(SEPS) + str(slot)
            route = [S.port_seg("bp", slot or 0)]
        else:
            if kind != "cip" and nh == 0:
                route = [S.port_seg("bp", 0)]
            else:
                for p, l in hops:
                    s += rnd.choice(SEPS) + rnd.choice(PORT_ALIASES[p]) + rnd.choice(SEPS) + str(l)
                route = [S.port_seg(p, l) for p, l in hops]
        sc = {"id": "ps%d" % i, "family": "path-session-" + kind, "target": {"policy": rnd.choice(["LargeOK", "LargeRefused"]), "identity": S.identity()},
              "driver": {"kind": kind, "path": s, "route": route, "host": host, "port": port or 44818}}
        if kind == "cip":
            g, scr = S.generic_call(rnd, route, mode="connected", script={"status": 0, "ext": [], "data": [1, 2]})
            g2, scr2 = S.generic_call(rnd, route, mode="ucsend", script={"status": 0, "ext": [], "data": [3]})
            g2["kwargs"]["route_path"] = True
            g2["intent"].update({"hasroute": 1, "routesegs": route, "cfgroute": 1})
            # the configured route keeps denoting the same target whatever was asked in between (module info of other slots)
            mods = [{"api": "get_module_info", "slot": sl, "intent": {"slot": sl}} for sl in rnd.sample([0, 1, 3, 5, 9, 16], rnd.choice([0, 1, 2]))]
            sc["calls"] = [{"api": "open"}] + mods + [g, g2, {"api": "close"}] + ([{"api": "open"}, {"api": "close"}] if i % 2 else [])
            sc["target"]["script"] = [scr, scr2]
            if mods and i % 3 == 0:
                # the module-info request gets no answer (empty slot): whatever the helper did to build its route is undone
                from .. import session
                tr = session.run_scenario(dict(sc, id=sc["id"] + "dry"))
                ops = [e["ops"] for e in tr["events"] if e["k"] == "call" and e["api"] == "get_module_info"]
                if ops:
                    sc["fault"] = {"at": "op", "n": ops[0] + 2, "kind": "raise"}
                    sc["family"] += "-lost-reply"
        elif kind == "logix":
            sc["project"], sc["mem"] = small_project(rnd)
            sc["driver"]["init_tags"] = False
            sc["calls"] = [{"api": "open"}, {"api": "get_plc_name"}, {"api": "get_plc_info"}, {"api": "close"}]
        else:
            tab = c18.table(rnd)
            a, it = c18.addr(rnd, tab)
            while not it["valid"]:
                a, it = c18.addr(rnd, tab)
            sc["slc"] = tab
            sc["calls"] = [{"api": "open"}, {"api": "read", "tags": [a], "intent": {"items": [it]}}, {"api": "close"}]
        scs.append(sc)
    return scs


def run(ctx):
    thorough = ctx.tier == "thorough"
    cfg = "ConnPathModel_full.cfg" if thorough else "ConnPathModel.cfg"
    r = tlc.must_pass(tlc.run("ConnPathModel", cfg, workers=16, timeout=1800), cfg)
    ctx.add_tlc(r, "R1")
    rnd = random.Random(ctx.seed * 1543 + 15)
    rec = Rec()
    gen(rec, rnd, thorough)
    fails = ce.judge(ctx, rec, "conn", module="TracePath", shard_events=1500)
    from .. import scenarios as S_, session_engine as se
    scs = session_family(rnd, 600 if thorough else 90)
    results = se.run_all(ctx, scs, "c15s")
    se.report(ctx, results, lambda r, clause, ev: {"label": r["sc"]["family"], "outcome": ev.get("k", "")})
    ctx.extra["path_sessions"] = len(scs)
    ctx.traces = ctx.evaluations = len(rec.events) + len(scs)
    for m in rec.meta:
        ctx.nontrivial.add(json.dumps([m["s"], m["auto"]]))
    ctx.rule = ("strings enumerated from the path grammar (5 hosts, optional TCP port incl. 1 / 65534, 0-4 hops, every port "
                "alias, every separator mix, links 0..255 and dotted quads), driver shortcuts, the stated rejection classes, "
                "single-character and single-token corruptions; each classified by ConnPath!Interp inside TLC; "
                "distinct = distinct (string, auto_slot)")
    for i in (0, len(rec.events) // 2, len(rec.events) - 1):
        ctx.sample({"meta": rec.meta[i], "out": rec.events[i].get("out", rec.events[i].get("outs"))})
    for idx, clause in fails:
        ev, meta = rec.events[idx], rec.meta[idx]
        if clause.startswith("MACHINERY"):
            raise core.Machinery(clause)
        out = ev.get("out", {})
        ctx.violation(clause, {"label": meta["label"], "outcome": out.get("cls", out.get("kind", "")) if isinstance(out, dict) else ""},
                      {"string": meta["s"], "auto_slot": meta["auto"], "out": ev.get("out", ev.get("outs"))},
                      {"kind": "connpath", "string": meta["s"], "auto_slot": meta["auto"], "event": ev})
    ctx.assumptions += ["port names are matched as documented (lower case); upper-case names, numeric ports 0 and >= 15, IPv6 "
                        "literals, empty tokens and white space are outside both the grammar and the stated rejection set"]


def replay(path):
    core.assert_repo()
    rec = json.load(open(path))
    r = rec["replay"]
    if isinstance(r["string"], str):
        print("string:", repr(r["string"]), "auto_slot:", r["auto_slot"])
        print("recorded:", json.dumps(r["event"].get("out"))[:500])
        print("now     :", json.dumps(run_one(r["string"], r["auto_slot"]))[:500])
    else:
        print(json.dumps(r)[:2000])
    return 0
