"""C16 - device identities decode faithfully.
R3 (a) TraceIdent.tla: ModuleIdentityObject / ListIdentityObject decodes of generated identities (vendor and product-type ids
       over the whole 16-bit range against the exported tables, serial boundaries, names of every length 0..255) and the
       encode(decode(x)) round trip;  (b) TraceSession: _list_identity / list_identity / get_module_info / get_plc_info
       against the identity configured in the reference target (clauses C16:field:*, C16:serial-format)."""
import json
import random

from .. import core, tlc, scenarios as S, session_engine as se
from .. import codec_engine as ce
from ..simtarget import Target
from ..values import to_term


def ident_record(i):
    VENDORS, PRODUCT_TYPES = se.id_tables()
    vt, pt = VENDORS.get(i["vendor"]), PRODUCT_TYPES.get(i["product_type"])
    r = {k: i[k] for k in ("vendor", "product_type", "product_code", "rev_major", "rev_minor", "status", "name")}
    r["serial_b"] = se.p32(i["serial"])
    r["ip"] = i.get("ip", [10, 0, 0, 1])
    r["state"] = i.get("state", 3)
    r["vendor_text"] = {"has": 1 if isinstance(vt, str) else 0, "s": se.cps(vt) if isinstance(vt, str) else []}
    r["ptype_text"] = {"has": 1 if isinstance(pt, str) else 0, "s": se.cps(pt) if isinstance(pt, str) else []}
    return r


class Rec:
    def __init__(self):
        self.events, self.meta = [], []


def codec_events(rnd, thorough):
    from pycomm3.custom_types import ModuleIdentityObject, ListIdentityObject
    VENDORS, PRODUCT_TYPES = se.id_tables()
    rec = Rec()
    ids = list(range(0, 65536, 1 if thorough else 17)) + [0, 1, 65535] + [k for k in VENDORS if isinstance(k, int)] + [k for k in PRODUCT_TYPES if isinstance(k, int)]
    ids += [k for k in VENDORS if isinstance(k, int)]          # every vendor id once more (the list above alternates vendor / product type)
    n_first = len(ids) - len([k for k in VENDORS if isinstance(k, int)])
    for n, x in enumerate(ids):
        which = n % 2 if n < n_first else 0
        i = S.identity(fw=rnd.randint(0, 255), serial=rnd.choice([0, 1, 0xFFFFFFFF, 0x0FFFFFFF, 0x10000000, rnd.getrandbits(32), rnd.getrandbits(12)]),
                       vendor=x if which == 0 else rnd.choice([1, 0, 65535, rnd.randint(0, 65535)]),
                       ptype=x if which == 1 else rnd.choice([0, 12, 14, 0xFFFF, rnd.randint(0, 300)]),
                       pcode=rnd.choice([0, 65535, rnd.randint(0, 65535)]), minor=rnd.randint(0, 255), status=(rnd.getrandbits(8), rnd.getrandbits(8)))
        ln = n % 256
        i["name"] = [rnd.choice([0, 32, 65, 255, rnd.randint(0, 255)]) for _ in range(ln)]
        if n % 5 == 0 and ln >= 2:                    # Latin-1 names whose bytes happen to be well-formed UTF-8 sequences
            seqs = [[0xC3, 0xA9], [0xC2, 0xB0], [0xE2, 0x82, 0xAC], [0xC3, 0x83, 0xC2, 0xA9], [0xDF, 0xBF]]
            nm = []
            while len(nm) < ln:
                nm += rnd.choice(seqs + [[65], [32]])
            i["name"] = nm[:ln]
        i["ip"] = [rnd.getrandbits(8) for _ in range(4)]
        i["state"] = rnd.getrandbits(8)
        lst = 1 if n % 3 == 0 else 0
        raw = Target({"identity": i}).identity_bytes(listid=bool(lst))
        if lst:
            raw = bytes([0x0C, 0, len(raw) & 0xFF, len(raw) >> 8]) + raw          # item type id + item length, as in the reply frame
        typ = ListIdentityObject if lst else ModuleIdentityObject
        try:
            v = typ.decode(raw)
            out = {"kind": "val", "v": to_term(v)}
        except Exception as ex:
            out, v = {"kind": "exc", "cls": type(ex).__name__}, None
        rt = {"kind": "skip"}
        if v is not None and not lst and v.get("vendor") != "UNKNOWN" and v.get("product_type") != "UNKNOWN":
            try:
                rt = {"kind": "val", "v": to_term(typ.decode(bytes(typ.encode(v))))}
            except Exception as ex:
                rt = {"kind": "exc", "cls": type(ex).__name__}
        rec.events.append({"op": "ident", "ident": ident_record(i), "list": lst, "bytes": list(raw), "out": out, "rt": rt})
        rec.meta.append({"vendor": i["vendor"], "ptype": i["product_type"], "list": lst, "namelen": ln})
    return rec


class FakeUdp:
    """Scripted UDP socket for CIPDriver.discover(): datagrams are handed out one per recv(), then the socket times out."""
    script = []

    def __init__(self, *a, **kw):
        self.queue = list(FakeUdp.script)
        self.budget = 1000

    def settimeout(self, t):
        pass

    def setsockopt(self, *a):
        pass

    def bind(self, addr):
        pass

    def sendto(self, msg, addr):
        return len(msg)

    def close(self):
        pass

    def recv(self, n):
        import socket as _s
        self.budget -= 1
        if self.budget < 0:
            raise core.Machinery("discover() never stops receiving")
        if not self.queue:
            raise _s.timeout("no more replies")
        return self.queue.pop(0)[:n]               # a datagram longer than the buffer is cut (UDP)


def rand_ident(rnd):
    i = S.identity(fw=rnd.randint(0, 255), serial=rnd.getrandbits(32), vendor=rnd.choice([1, 0, 5, 65535, rnd.randint(0, 2000)]),
                   ptype=rnd.choice([0, 12, 14, 43, 300, 65535]), pcode=rnd.randint(0, 65535), minor=rnd.randint(0, 255),
                   status=(rnd.getrandbits(8), rnd.getrandbits(8)))
    i["name"] = [rnd.choice([32, 65, 66, 49, 255]) for _ in range(rnd.choice([0, 1, 7, 32, 100, 254, 255]))]
    i["ip"] = [rnd.getrandbits(8) for _ in range(4)]
    i["state"] = rnd.getrandbits(8)
    return i


def discover_events(rec, rnd, n):
    """CIPDriver.discover() over a scripted UDP socket: several devices answer, some replies are damaged."""
    import socket as _s
    from unittest import mock
    import pycomm3
    for k in range(n):
        dgrams, script = [], []
        for j in range(rnd.choice([1, 2, 3, 5])):
            i = rand_ident(rnd)
            if j and k % 3 == 0:                      # distinct devices may share a serial number, and unknown vendors share a name
                i["serial"] = first_serial
                i["vendor"] = 40000 + j
            if j == 0:
                first_serial = i["serial"]
                if k % 3 == 0:
                    i["vendor"] = 40000
            item = Target({"identity": i}).identity_bytes(listid=True)
            body = bytes([1, 0, 0x0C, 0, len(item) & 0xFF, len(item) >> 8]) + item
            frame = bytes([0x63, 0, len(body) & 0xFF, len(body) >> 8]) + bytes(20) + body
            kind = rnd.choice(["good", "good", "good", "trunc", "status"]) if k % 2 else "good"
            d = {"ident": ident_record(i), "kind": kind, "n": 0}
            if kind == "trunc":
                d["n"] = rnd.choice([0, 5, 23, 24, 26, 30, len(frame) - 20, len(frame) - 1])
                frame = frame[:d["n"]]
            elif kind == "status":
                d["n"] = rnd.choice([1, 2, 0x64, 0x65])
                frame = frame[:8] + d["n"].to_bytes(4, "little") + frame[12:]
            d["bytes"] = list(frame)
            dgrams.append(d)
            script.append(frame)
        FakeUdp.script = script
        with mock.patch("socket.socket", FakeUdp), mock.patch("socket.gethostname", lambda: "host"), \
                mock.patch("socket.getaddrinfo", lambda *a, **kw: [(_s.AddressFamily.AF_INET, 0, 0, "", ("192.0.2.7", 0))]):
            try:
                out = {"kind": "val", "v": to_term(pycomm3.CIPDriver.discover())}
            except core.Machinery:
                raise
            except Exception as ex:
                out = {"kind": "exc", "cls": type(ex).__name__}
        rec.events.append({"op": "discover", "dgrams": dgrams, "out": out})
        rec.meta.append({"vendor": -1, "ptype": -1, "list": 2, "namelen": len(dgrams), "kinds": [d["kind"] for d in dgrams]})


def position_events(rec, rnd, n):
    """ModuleIdentityObject decoded away from offset 0: after other members of a structure, as array elements, from a
    partly consumed stream."""
    import io
    from pycomm3.custom_types import ModuleIdentityObject
    from pycomm3.cip import Struct, UINT, USINT, Array
    for k in range(n):
        ids = [rand_ident(rnd) for _ in range(rnd.choice([1, 2, 3]))]
        raws = [Target({"identity": i}).identity_bytes(listid=False) for i in ids]
        form = k % 3
        try:
            if form == 0:                                        # partly consumed stream
                pre = bytes(rnd.getrandbits(8) for _ in range(rnd.randint(1, 9)))
                st = io.BytesIO(pre + b"".join(raws))
                st.read(len(pre))
                vals = [ModuleIdentityObject.decode(st) for _ in ids]
            elif form == 1:                                      # member of a larger structure
                T = Struct(UINT("count"), USINT("x"), *[ModuleIdentityObject("m%d" % j) for j in range(len(ids))])
                v = T.decode(b"\x01\x02\x03" + b"".join(raws))
                vals = [v["m%d" % j] for j in range(len(ids))]
            else:                                                # array elements
                vals = list(Array(len(ids), ModuleIdentityObject).decode(b"".join(raws)))
            out = {"kind": "val", "v": to_term(vals)}
        except Exception as ex:
            out = {"kind": "exc", "cls": type(ex).__name__}
        rec.events.append({"op": "pos", "idents": [ident_record(i) for i in ids], "form": form, "out": out})
        rec.meta.append({"vendor": -2, "ptype": -2, "list": 3, "namelen": form})


def session_scenarios(rnd, n):
    from ..projgen import small_project
    scs = []
    for k in range(n):
        ident = S.identity(fw=rnd.choice([16, 20, 32, 255]), serial=rnd.choice([0, 0xFFFFFFFF, 0x0000ABCD, rnd.getrandbits(32)]),
                           vendor=rnd.choice([1, 0, 2, 65535, rnd.randint(0, 2000)]), ptype=rnd.choice([0, 12, 14, 43, 300, 65535]),
                           pcode=rnd.randint(0, 65535), minor=rnd.randint(0, 255), status=(rnd.getrandbits(8), rnd.getrandbits(8)),
                           name="".join(rnd.choice(["A", "1", " ", "\xe9", "/", "\xc3\xa9", "\xc2\xb0"]) for _ in range(rnd.choice([0, 1, 11, 32, 120, 230, 255])))[:255])
        ident["ip"] = [rnd.getrandbits(8) for _ in range(4)]
        ident["state"] = rnd.getrandbits(8)
        kind = rnd.choice(["cip", "logix"])
        calls = [{"api": "open"}, {"api": "_list_identity"}, {"api": "get_module_info", "slot": rnd.randint(0, 16)}]
        if kind == "cip" and k % 2:
            calls = [{"api": "list_identity", "path": "10.2.2.2/bp/0"}] + calls          # the classmethod, before this driver is opened
        if kind == "cip" and k % 8 == 4:
            # a device that refuses RegisterSession still answers the session-less ListIdentity
            scs.append({"id": "idr%d" % k, "family": "identity-cip-session-refused", "target": {"policy": "SessionRefused", "identity": ident},
                        "driver": {"kind": "cip", "path": "10.2.2.2/bp/0", "route": [S.port_seg("bp", 0)]},
                        "calls": [{"api": "list_identity", "path": "10.2.2.2/bp/0"}]})
        sc = {"id": "id%d" % k, "family": "identity-" + kind, "target": {"policy": "LargeOK", "identity": ident},
              "driver": {"kind": kind, "path": "10.2.2.2/bp/0" if kind == "cip" else "10.2.2.2", "route": [S.port_seg("bp", 0)]}}
        if kind == "logix":
            sc["project"], sc["mem"] = small_project(rnd)
            sc["driver"]["init_tags"] = False
            calls.append({"api": "get_plc_info"})
        if k % 3 == 0:
            # the device behind the address is exchanged: later answers describe the new device, earlier results stay what they were
            other = S.identity(fw=rnd.choice([1, 33]), serial=rnd.getrandbits(32), vendor=rnd.choice([1, 5, 40000]), ptype=rnd.choice([12, 14, 7]),
                               pcode=rnd.randint(0, 65535), minor=rnd.randint(0, 255), status=(rnd.getrandbits(8), rnd.getrandbits(8)),
                               name="".join(chr(rnd.choice([66, 50, 45])) for _ in range(rnd.choice([0, 3, 40]))))
            other["ip"] = [rnd.getrandbits(8) for _ in range(4)]
            other["state"] = rnd.getrandbits(8)
            calls += [{"api": "_env", "intent": {"identity": other}}, {"api": "_list_identity"}, {"api": "get_module_info", "slot": 2}]
        calls.append({"api": "close"})
        sc["calls"] = calls
        sc["chunk"] = rnd.choice([4096, 4096, 100, 30, 7, 1])           # identity replies arrive in several TCP segments
        scs.append(sc)
    return scs


def run(ctx):
    thorough = ctx.tier == "thorough"
    core.assert_repo()
    rnd = random.Random(ctx.seed * 313 + 16)
    rec = codec_events(rnd, thorough)
    discover_events(rec, rnd, 400 if thorough else 60)
    position_events(rec, rnd, 300 if thorough else 45)
    fails = ce.judge(ctx, rec, "ident", module="TraceIdent", shard_events=3000)
    for idx, clause in fails:
        if clause.startswith("MACHINERY"):
            raise core.Machinery("%s on %s" % (clause, json.dumps(rec.events[idx])[:600]))
        m = rec.meta[idx]
        e0 = rec.events[idx]
        key = {"list": m["list"], "known_vendor": e0["ident"]["vendor_text"]["has"], "known_ptype": e0["ident"]["ptype_text"]["has"],
               "namelen0": m["namelen"] == 0} if "ident" in e0 else {"op": e0["op"], "shape": m.get("kinds", m["namelen"])}
        ctx.violation(clause, key,
                      {"event": rec.events[idx]}, {"kind": "identity-event", "event": rec.events[idx]})
    scs = session_scenarios(rnd, 300 if thorough else 50)
    results = se.run_all(ctx, scs, "c16")
    se.report(ctx, results, lambda r, clause, ev: {"family": r["sc"]["family"], "api": ev.get("api", "")})
    ctx.traces = len(results) + len(rec.events)
    ctx.evaluations = len(rec.events) + 3 * len(scs)
    for m in rec.meta:
        ctx.nontrivial.add(json.dumps(m, sort_keys=True))
    ctx.exhaustive = thorough
    ctx.rule = ("identity decodes with vendor / product-type ids 0..65535 (every id in thorough, every 17th + all table keys in quick) "
                "against the exported tables, product names of every length 0..255, serial / revision / status boundaries, "
                "ListIdentity items with arbitrary IPv4 / state; encode(decode(x)) for known ids; sessions calling _list_identity, "
                "get_module_info, get_plc_info; distinct = distinct (vendor, product type, kind, name length)")
    ctx.sample({"event": {k: v for k, v in rec.events[1].items() if k != "bytes"}})
    ctx.assumptions += ["vendor / product-type texts are data exported from the code; the specification owns the rule (table text or 'UNKNOWN')",
                        "CIPDriver.discover runs over a scripted UDP socket (one interface, replies in a fixed order); the real "
                        "broadcast and interface enumeration are outside"]


def replay(path):
    rec = json.load(open(path))
    if rec["replay"].get("kind") == "session":
        from . import logix_common as lc
        return lc.replay(path)
    print(json.dumps(rec, indent=1)[:3000])
    return 0
