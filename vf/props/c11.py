"""C11 - every emitted frame is a well-formed EtherNet/IP encapsulation message.
R1: EncapModel (the strict parser accepts exactly the well-formed frames; each single-field malformation is rejected with
    the clause naming the field).  R3: every frame of a cross-section of all session families (generic messaging with
    arbitrary handles / connection ids / payload lengths, lifecycle histories with faults and re-opens, Logix reads / writes /
    uploads, SLC) is parsed by Encap!ParseFrame inside TraceSession; clauses C11:*."""
import json
import random

from .. import core, tlc, session_engine as se
from . import c14, c10


def run(ctx):
    thorough = ctx.tier == "thorough"
    r = tlc.must_pass(tlc.run("EncapModel", "EncapModel.cfg", workers=8, timeout=600), "EncapModel")
    ctx.add_tlc(r, "R1")
    rnd = random.Random(ctx.seed * 13 + 11)
    scs = c14.gen(rnd, 1200 if thorough else 250, prefix="e")
    scs += c14.helper_scenarios(rnd, 120 if thorough else 25)
    # lifecycle: faults, then the same object is re-opened (new handle, new connection id)
    for h1 in (["open", "msgC"], ["open", "msgU", "msgC"]):
        for tail in (["close", "open", "msgC", "msgU"], ["msgC", "close", "open", "msgC", "close", "open", "msgC"]):
            for fat in range(0, 19):
                for fk in ("raise", "eof"):
                    sc = c10.scenario(len(scs), rnd.choice(["LargeOK", "LargeRefused"]), "none" if fat == 0 else fk, fat, h1 + tail, rnd,
                                      kind="cip", withblock=rnd.random() < 0.3)
                    sc["id"] = "ef%d" % len(scs)
                    sc["target"]["handles"] = [rnd.getrandbits(32) or 1, rnd.getrandbits(32) or 2, 0x80000001, 7, 8]
                    sc["target"]["cids"] = [[rnd.getrandbits(8) for _ in range(4)] for _ in range(5)] + [[1, 2, 3, 4]]
                    if len({tuple(c) for c in sc["target"]["cids"]}) == 6 and len(set(sc["target"]["handles"])) == 5:
                        scs.append(sc)
    try:
        from . import logix_rw
        scs += logix_rw.cross_section(rnd, 60 if thorough else 16, prefix="ex")
    except ImportError:
        pass
    # a target may grant any 32-bit connection id, zero included
    for k, sc in enumerate(scs):
        if k % 6 == 2 and "cids" in sc["target"] and [0, 0, 0, 0] not in sc["target"]["cids"]:
            sc["target"]["cids"] = [[0, 0, 0, 0]] + sc["target"]["cids"]
    # the network takes every frame in several pieces (partial sends): what arrives is still one well-formed frame per message
    for k, sc in enumerate(scs):
        if k % 4 == 1:
            sc["sendchunk"] = rnd.choice([1, 7, 24, 30, 100, 1460])
    results = se.run_all(ctx, scs, "c11")
    ctx.traces = len(results)
    nf = se.report(ctx, results, lambda r, clause, ev: {"family": r["sc"]["family"], "event": ev.get("k", "")})
    ctx.evaluations = nf
    for r in results:
        for e in r["trace"]["events"]:
            if e["k"] == "tx":
                ctx.nontrivial.add(bytes(e["b"][:2] + e["b"][4:8]).hex() + ":%d" % len(e["b"]))
    ctx.rule = ("every frame written to the socket in generic-messaging sessions (handles / connection ids from boundary and "
                "random 32-bit values, payloads 0..400 bytes odd/even, three transports), helper sessions, lifecycle histories with a "
                "fault at every position followed by re-open, Logix read/write sessions; evaluations = frames parsed; "
                "distinct = distinct (command, session handle, frame length)")
    ctx.sample({"first_frames": [e["b"][:44] for e in results[0]["trace"]["events"] if e["k"] == "tx"][:3]})
    ctx.assumptions += ["a session handle is valid only within the TCP connection in which it was granted"]


def replay(path):
    from . import logix_common as lc
    return lc.replay(path)
