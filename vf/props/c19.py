"""C19 - code tables are total, bidirectional, case-insensitive lookups.
R1: EnumMapModel (the lookup semantics is total/consistent on every small table with collisions).
R3: every lookup on every exported EnumMap table, recorded from the real classes, judged by TraceEnum.tla."""
import importlib
import json
import os
import pkgutil

from .. import core, tlc
from ..values import str_term

_registry = {}


def tok(v):
    if v is None:
        return "none"
    if isinstance(v, bool):
        return "B:%d" % v
    if isinstance(v, (bytes, bytearray)):
        return "b:" + bytes(v).hex()
    if isinstance(v, int):
        return "i:%d" % v
    if isinstance(v, str):
        return "s:" + v
    k = id(v)
    if k not in _registry:
        _registry[k] = (v, "o:%s#%d" % (getattr(v, "__name__", type(v).__name__), len(_registry)))
    return _registry[k][1]


def cps(s):
    return [ord(c) for c in s]


def casings(name):
    alt = "".join(c.upper() if i % 2 else c.lower() for i, c in enumerate(name))
    return list(dict.fromkeys([name, name.lower(), name.upper(), name.capitalize(), alt]))


def find_tables():
    import pycomm3
    tables = []
    seen = set()
    for m in pkgutil.walk_packages(pycomm3.__path__, "pycomm3."):
        mod = importlib.import_module(m.name)
        for obj in vars(mod).values():
            if isinstance(obj, type) and type(obj).__name__ == "MapMeta" and obj.__name__ != "EnumMap" \
                    and id(obj) not in seen:
                seen.add(id(obj))
                tables.append(obj)
    tables.sort(key=lambda c: (c.__module__, c.__name__))
    return tables


def declared(cls):
    return [(k, v) for k, v in cls.__dict__.items()
            if not k.startswith("_") and not isinstance(v, (classmethod, staticmethod))]


_MISSING = object()


def outcome(fn):
    try:
        r = fn()
    except KeyError:
        return {"kind": "missing"}
    except Exception as ex:                     # any other exception is never an allowed outcome
        return {"kind": "exc", "cls": type(ex).__name__}
    if r is _MISSING:
        return {"kind": "missing"}
    if isinstance(r, str):
        return {"kind": "res", "tok": tok(r), "isstr": 1, "s": cps(r)}
    return {"kind": "res", "tok": tok(r), "isstr": 0, "s": []}


def key_rec(k):
    if isinstance(k, str):
        return {"s": cps(k), "isstr": True, "v": tok(k)}
    return {"s": [], "isstr": False, "v": tok(k)}


def record():
    from pycomm3.cip import DataTypes, Services, SERVICE_STATUS, EXTEND_CODES
    from pycomm3.packets.util import get_service_status, get_extended_status
    from pycomm3.tag import Tag
    tables, events, descr = [], [], []
    for ti, cls in enumerate(find_tables(), 1):
        mem = declared(cls)
        uses_code = "_value_key_" in cls.__dict__
        rk = [(getattr(v, "code") if uses_code else v) for _, v in mem]
        tables.append({"names": [cps(k) for k, _ in mem], "vals": [tok(v) for _, v in mem],
                       "rkeys": [tok(x) for x in rk], "bidir": bool(cls.__dict__.get("_bidirectional_", True))})
        descr.append("%s.%s(%d members)" % (cls.__module__, cls.__name__, len(mem)))
        keys = []
        for name, _ in mem:
            keys += casings(name)
        keys += ["__no_such_member__", "", "zz"] + [n + "x" for n, _ in mem[:2]]
        seen_codes = []
        for x in rk:
            try:
                if x not in seen_codes:
                    seen_codes.append(x)
            except Exception:
                seen_codes.append(x)
        keys += seen_codes + [b"\xee\xee\xee", 0x7FFFFFF, -1]
        for k in keys:
            kr = key_rec(k)
            events.append({"op": "getitem", "table": ti, "key": kr, "out": outcome(lambda: cls[k])})
            events.append({"op": "get", "table": ti, "key": kr, "out": outcome(lambda: cls.get(k, _MISSING))})
            try:
                b = {"kind": "bool", "b": 1 if (k in cls) else 0}
            except Exception as ex:
                b = {"kind": "exc", "cls": type(ex).__name__}
            events.append({"op": "contains", "table": ti, "key": kr, "out": b})
        if cls is Services or cls.__name__ == "Services":
            for b in range(128, 256):
                events.append({"op": "from_reply", "table": ti, "tok": tok(bytes([b - 128])),
                               "out": outcome(lambda: _none_missing(cls.from_reply(bytes([b]))))})
        if cls.__name__ == "DataTypes":
            for code in range(0, 256):
                events.append({"op": "type_code", "table": ti, "tok": tok(code),
                               "out": outcome(lambda: _none_missing(cls.get_type(code)))})
    for n in range(256):
        has = n in SERVICE_STATUS
        try:
            text = get_service_status(n)
            if not isinstance(text, str):
                text = ""
        except Exception:
            text = ""
        events.append({"op": "status", "n": n, "has": 1 if has else 0, "table": 1,
                       "ttext": (cps(SERVICE_STATUS[n]) if isinstance(SERVICE_STATUS[n], str) else [0]) if has else [], "text": cps(text)})
    for st, exts in EXTEND_CODES.items():
        for ext, ttext in exts.items():
            if not isinstance(ext, int) or ext < 0 or ext > 0xFFFFFFFF or not (0 <= st <= 255):
                continue
            if not isinstance(ttext, str):
                ttext = "\x00"                       # a table entry that is not a text can never be reported correctly
            msgs = [bytes(10) + bytes([st, 2]) + ext.to_bytes(4, "little")]          # two additional-status words
            if ext <= 0xFFFF:
                msgs.append(bytes(10) + bytes([st, 1]) + ext.to_bytes(2, "little"))  # one word
            for msg in msgs:
                try:
                    text = get_extended_status(msg, 10) or ""
                except Exception:
                    text = ""
                events.append({"op": "ext", "table": 1, "ttext": cps(ttext), "text": cps(text)})
    # truth table of Tag.__bool__ (clause C03:truthiness, reported by C03)
    for value in [None, 0, "", [], False, 1, "x", 0.0, {}]:
        for error in [None, "", "e"]:
            events.append({"op": "truth", "table": 1, "value_none": 1 if value is None else 0,
                           "error_none": 1 if error is None else 0, "out": 1 if Tag("t", value, None, error) else 0})
    return {"tables": tables, "events": events}, descr


def _none_missing(r):
    return _MISSING if r is None else r


def judge(ctx, log, tag):
    os.makedirs(os.path.join(core.OUT, "traces", str(os.getpid())), exist_ok=True)
    path = os.path.join(core.OUT, "traces", str(os.getpid()), "%s_%s.json" % (ctx.pid, tag))
    with open(path, "w") as fh:
        json.dump(log, fh)
    res = tlc.run("TraceEnum", "TraceEnum.cfg", workers=1, env={"TRACE_FILE": path}, timeout=600)
    if not res.ok:
        raise core.Machinery("TraceEnum did not complete: %s" % res.out[-2000:])
    ctx.add_tlc(res, "R3")
    return res.tuples("FAIL")


def run(ctx):
    r1 = tlc.must_pass(tlc.run("EnumMapModel", "EnumMapModel.cfg", workers=8, timeout=600), "EnumMapModel")
    ctx.add_tlc(r1, "R1")
    log, descr = record()
    fails = judge(ctx, log, "lookups")
    ev = log["events"]
    ctx.traces = 1
    ctx.evaluations = len(ev)
    for e in ev:
        ctx.nontrivial.add(json.dumps([e["op"], e.get("table"), e.get("key", e.get("tok", e.get("n")))], sort_keys=True))
    ctx.exhaustive = True
    ctx.rule = ("every declared member of every EnumMap subclass found by walking the pycomm3 package x casing classes "
                "{declared, lower, UPPER, Capitalised, aLtErNaTiNg} x {[], get, in}; every reverse key; absent keys; "
                "every reply-service byte 0x80..0xFF; every type code 0..255; every status 0..255; every (status, ext) "
                "pair of EXTEND_CODES.  distinct = distinct (op, table, key) triples; all are non-trivial lookups.")
    ctx.extra["tables"] = descr
    ctx.sample({"table": descr[0], "event": ev[0]})
    ctx.sample({"event": ev[len(ev) // 2]})
    names = {i + 1: d for i, d in enumerate(descr)}
    for _, i, clause in fails:
        e = ev[i - 1]
        key = {"op": e["op"], "table": names.get(e.get("table"), "").split("(")[0] if e["op"] not in ("status", "ext", "truth") else e["op"]}
        ctx.violation(clause, key, {"event": e}, {"kind": "enum-lookup", "event": e, "table": tables_of(log, e)})
    ctx.assumptions += ["member lists are read from each table class's own __dict__ (declared data), reverse keys for "
                        "tables declaring _value_key_ are the members' .code attributes",
                        "status/extended-status texts are data exported from the code; the specification owns the rule"]


def tables_of(log, e):
    t = e.get("table")
    return log["tables"][t - 1] if t else None


def replay(path):
    rec = json.load(open(path))
    print(json.dumps(rec, indent=1)[:3000])
    return 0
