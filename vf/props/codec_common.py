"""Common driver for C06 / C07 / C08: R1 CodecModel, then the families of that property through TraceCodec."""
import json
import random

from .. import core, tlc
from .. import codec_engine as ce
from .. import codec_families as cf

_R1_CACHE = {}


def r1(ctx):
    res = tlc.must_pass(tlc.run("CodecModel", "CodecModel.cfg", workers=16, timeout=1200), "CodecModel")
    ctx.add_tlc(res, "R1")
    ctx.extra["r1_invariants"] = ["InDomainAll", "RoundTrip", "ExactConsumption", "TruncationClassified",
                                  "DictEqualsPositional", "FixedArrayTruncates", "Injective"]


def run_families(ctx, fams, seed_salt):
    thorough = ctx.tier == "thorough"
    rnd = random.Random(ctx.seed * 1000003 + seed_salt)
    rec = ce.Recorder()
    for name, fn in fams:
        n0 = len(rec.events)
        fn(rec, rnd, thorough)
        ctx.count("events:" + name, len(rec.events) - n0)
    fails = ce.judge(ctx, rec, "codec")
    ctx.traces = len(rec.events)
    ctx.evaluations = len(rec.events)
    for ev in rec.events:
        ctx.nontrivial.add(json.dumps([ev["op"], ev.get("t", ev.get("code")), ev.get("v", ev.get("b"))], sort_keys=True))
    for i in (0, len(rec.events) // 3, 2 * len(rec.events) // 3, len(rec.events) - 1):
        ev = json.loads(json.dumps(rec.events[i]))
        if isinstance(ev.get("b"), list) and len(ev["b"]) > 40:
            ev["b"] = ev["b"][:40] + ["..."]
        ctx.sample({"type": rec.meta[i]["type"], "label": rec.meta[i]["label"], "event": ev})
    ce.report(ctx, rec, fails)
    ctx.assumptions += ["descriptor -> class mapping (vf/codecgen.py) states the CIP widths / prefix sizes positively",
                        "NaN payloads, bool passed to integer types, UTF-8 beyond ASCII in 1-byte STRINGN, over-capacity "
                        "fixed strings, str/bytes passed where a list is expected are 'unspec' (either outcome accepted)",
                        "DATE_AND_TIME and n_bytes() are exercised only at top level (their calling convention does not compose)"]
    return rec


def replay(path):
    return ce.replay_event(path)
