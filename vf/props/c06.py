"""C06 - data-type codecs round-trip every value (decode(encode(v)) = v, exact stream consumption, dict = positional)."""
from .. import codec_families as cf
from . import codec_common as cc


def run(ctx):
    cc.r1(ctx)
    th = ctx.tier == "thorough"
    fams = [("strings", cf.fam_strings), ("bits-cross", cf.fam_bits_cross),
            ("composites", lambda r, rnd, t: cf.fam_composites(r, rnd, t, 1500 if th else 260)),
            ("structtag", lambda r, rnd, t: cf.fam_structtag(r, rnd, t, 400 if th else 80)),
            ("elementary-rt", elementary_rt)]
    cc.run_families(ctx, fams, 6)
    ctx.rule = ("round-trip / stream / dict-vs-positional events: every SHORT_STRING length 0..255, boundary lengths of the "
                "other string types, FixedSizeString capacities x lengths 0..cap+2, every elementary type in the three array "
                "length kinds, seeded random descriptor trees (depth <= 3 quick, <= 4 thorough) x 3 values, random Logix "
                "templates; distinct = distinct (op, descriptor, input) triples")


def elementary_rt(rec, rnd, thorough):
    from .. import codecgen as g
    for t in g.elementary_alphabet():
        if t["k"] == "real":
            vals = g.float_values(rnd, 400 if thorough else 120, t["w"])
            if t["w"] == 4:
                vals = [v for v in vals if abs(v) < 3.4e38 or v != v or abs(v) == float("inf")]
        elif t["k"] == "int":
            vals = g.int_values(t, rnd, 120 if thorough else 50)
        else:
            vals = [g.gen_value(t, rnd) for _ in range(20)]
        for v in vals:
            raw = rec.rt(t, v, "elementary-rt")
            if raw is not None and not (t["k"] == "nbytes" and t["n"] == -1):
                rec.stream(t, raw, b"\xde\xad", "elementary-stream")


replay = cc.replay
