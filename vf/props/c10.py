"""C10 - connection lifecycle is safe under any call history and failure point.
R1: Lifecycle.tla (the lifecycle code transcribed, every raw send/recv may fail) against the contract: exhaustive for
    histories of 6 calls x 4 target policies x one fault (raise / peer gone) at every I/O position, with termination.
R2: Lifecycle_gen.cfg prints every environment behaviour (history, policy, fault) of 3 calls; each is replayed into the
    real CIPDriver (and a sample into LogixDriver / with-blocks) over the scripted socket and reference target.
R3: TraceSession clauses C10:* decide."""
import json
import random

from .. import core, tlc, scenarios as S, session_engine as se


def call_of(name, rnd, route, script, kind):
    if name == "open":
        return {"api": "open"}
    if name == "close":
        return {"api": "close"}
    if name.startswith("env:"):                 # the target changes its admission policy between two calls
        return {"api": "_env", "intent": {"policy": name[4:]}}
    if kind == "logix":
        if name == "msgC":
            return {"api": "get_plc_name"}
        return {"api": "get_plc_info"}
    if kind == "slc" and name == "msgC":
        e = rnd.randint(0, 9)
        return {"api": "read", "tags": ["N7:%d" % e],
                "intent": {"items": [{"pos": 0, "bit": -1, "sub": "", "count": 1, "valid": 1, "value": {"none": 1}, "ftype": "N", "file": 7, "elem": e}]}}
    c, s = S.generic_call(rnd, route, mode="connected" if name == "msgC" else rnd.choice(["ucmm", "ucsend"]),
                          script={"status": 0, "ext": [], "data": [1, 2, 3]})
    if name == "msgC" and rnd.random() < 0.3:
        c["kwargs"]["unconnected_send"] = True          # both flags: a connected message (the Unconnected Send wrapper does not apply)
    script.append(s)
    return c


def scenario(i, policy, fkind, fat, hist, rnd, kind="cip", withblock=False):
    route = [S.port_seg("bp", 1)] if kind == "cip" else [S.port_seg("bp", 0)]
    if kind == "slc":
        route = [S.port_seg("bp", 0)]
    path = "10.9.8.7/bp/1" if kind == "cip" else "10.9.8.7"
    script, calls = [], []
    for h in hist:
        c = call_of(h, rnd, route, script, kind)
        if withblock and h == "open":
            c = {"api": "enter"}
        if withblock and h == "close":
            c = {"api": "exit", "raising": rnd.choice([False, True, "comm"])}
        calls.append(c)
    sc = {"id": "L%d" % i, "family": "lifecycle-" + kind + ("-with" if withblock else ""),
          "target": {"policy": policy, "script": script, "identity": S.identity(fw=rnd.choice([19, 21, 32])),
                     "handles": rnd.choice([[0x11, 0x12, 0x13, 0x14, 0x15, 0x16, 0x17, 0x18], [0x80000000, 0xFFFFFFFF, 0x7FFFFFFF, 0x80000001, 5, 6, 7, 8],
                                            [0xFFFFFFFE, 1, 0x90000000, 2, 0xA0000000, 3, 0xB0000000, 4]])},
          "driver": {"kind": kind, "path": path, "route": route}, "calls": calls,
          "fault": None if fkind == "none" else {"at": "op", "n": fat, "kind": fkind}}
    if kind == "logix":
        from ..projgen import small_project
        sc["project"], sc["mem"] = small_project(rnd)
        sc["driver"]["init_tags"] = rnd.random() < 0.5
    if kind == "slc":
        from . import c18
        sc["slc"] = c18.table(rnd)
    return sc


def build(ctx, rnd, thorough):
    res = tlc.must_pass(tlc.run("Lifecycle", "Lifecycle_gen.cfg", workers=1, timeout=900), "Lifecycle_gen")
    ctx.add_tlc(res, "R2")
    behs = res.tuples("BEH")
    scs = []
    for i, (_, policy, fkind, fat, hist, io) in enumerate(behs):
        if fkind != "none" and fat > io + 1:
            continue                                   # the fault position is never reached in this history
        scs.append(scenario(len(scs), policy, fkind, fat, hist, rnd))
    n_model = len(scs)
    # a fault anywhere, then the same driver object is closed, re-opened and used again (state that survives close())
    for h1 in (["open", "msgC"], ["open", "msgU", "msgC"], ["open", "msgC", "msgC"]):
        for tail in (["close", "open", "msgC"], ["close", "close", "open", "msgC", "close"], ["msgC", "close", "open", "msgC"]):
            for fat in range(1, 21):
                for fk in ("raise", "eof"):
                    for pol in ("LargeOK", "LargeRefused"):
                        if fk == "eof" and fat > 8 and pol == "LargeRefused":
                            continue
                        scs.append(scenario(len(scs), pol, fk, fat, h1 + tail, rnd))
    # longer seeded histories, with-blocks, LogixDriver (whose open() performs many exchanges), multiple re-opens
    for j in range(1500 if thorough else 300):
        hist = [rnd.choice(["open", "close", "msgC", "msgU"]) for _ in range(rnd.randint(3, 8))]
        if rnd.random() < 0.6:
            hist = ["open"] + hist
        kind = rnd.choice(["cip", "cip", "logix", "slc"])
        fk = rnd.choice(["none", "raise", "eof"])
        fat = rnd.randint(1, 60 if kind == "logix" else 20)
        scs.append(scenario(len(scs), rnd.choice(["LargeOK", "LargeRefused", "AllRefused", "SessionRefused"]), fk, fat, hist, rnd,
                            kind=kind, withblock=rnd.random() < 0.3))
        if j % 4 == 1:                      # the target is busy at first and admits connections later (or the reverse)
            k = rnd.randint(1, len(hist))
            hist2 = hist[:k] + ["env:" + rnd.choice(["LargeOK", "LargeRefused", "AllRefused"])] + hist[k:] + ["msgC", "close"]
            scs[-1] = scenario(len(scs) - 1, rnd.choice(["AllRefused", "AllRefused", "LargeRefused", "LargeOK"]), fk, fat, hist2, rnd, kind="cip",
                               withblock=False)
            scs[-1]["family"] += "-policy-change"
        if j % 5 == 2 and fk != "none":     # two faults in one history (the first a raised error, the second either kind)
            f1 = rnd.randint(1, 25)
            scs[-1]["faults"] = [{"at": "op", "n": f1, "kind": "raise"}, {"at": "op", "n": f1 + rnd.randint(1, 12), "kind": fk}]
            scs[-1]["fault"] = scs[-1]["faults"][1]
            scs[-1]["family"] += "-two-faults"
        if j % 7 == 3:                      # the network takes every frame in small pieces
            scs[-1]["sendchunk"] = rnd.choice([7, 9, 24])
        if j % 3 == 0:                      # replies arrive in small TCP segments: the fault may fall inside a frame
            scs[-1]["chunk"] = rnd.choice([30, 24, 7, 1])
            scs[-1]["fault"] = None if fk == "none" else {"at": "op", "n": rnd.randint(1, 80), "kind": fk}
            scs[-1]["family"] += "-segmented"
    return scs, n_model


def run(ctx):
    thorough = ctx.tier == "thorough"
    r = tlc.must_pass(tlc.run("Lifecycle", "Lifecycle.cfg", workers=16, timeout=1500, coverage=True), "Lifecycle")
    if [a for a in r.coverage_zero() if a != "PolicyChange"]:
        raise core.Machinery("vacuous Lifecycle run: actions never taken %s" % r.coverage_zero())
    ctx.add_tlc(r, "R1")
    r = tlc.must_pass(tlc.run("Lifecycle", "Lifecycle_2f.cfg", workers=16, timeout=1800), "Lifecycle_2f")       # two faults per history
    ctx.add_tlc(r, "R1")
    r = tlc.must_pass(tlc.run("Lifecycle", "Lifecycle_env.cfg", workers=16, timeout=1500, coverage=True), "Lifecycle_env")
    if r.coverage_zero():
        raise core.Machinery("vacuous Lifecycle_env run: actions never taken %s" % r.coverage_zero())
    ctx.add_tlc(r, "R1")
    # negative model (not vacuous): were the connection serial numbers drawn once per driver object, a connection that
    # outlived a close() would make the re-opened driver unusable - TLC must find that behaviour
    r = tlc.run("Lifecycle", "Lifecycle_stale_triad.cfg", workers=16, timeout=900)
    if r.violated != "NoViolation" or 'viol = "reopen-duplicate-connection"' not in r.out:
        raise core.Machinery("Lifecycle_stale_triad: the duplicate Forward Open after a lost Forward Close was not found (%s)" % r.violated)
    rnd = random.Random(ctx.seed * 101 + 10)
    scs, n_model = build(ctx, rnd, thorough)
    results = se.run_all(ctx, scs, "c10", shard_traces=400)
    ctx.traces = len(results)
    ctx.evaluations = len(scs)
    for s in scs:
        ctx.nontrivial.add(json.dumps([s["target"]["policy"], s["fault"], [c["api"] for c in s["calls"]], s["driver"]["kind"]]))
    ctx.extra["from_model"] = n_model
    ctx.rule = ("every behaviour of Lifecycle_gen.cfg (3 calls over {open, close, connected msg, unconnected msg} x 4 policies x "
                "{no fault, raise, peer gone} at every reachable I/O position) replayed on CIPDriver, plus seeded histories of "
                "3-9 calls on CIPDriver / LogixDriver with with-blocks; distinct = distinct (policy, fault, call list, driver)")
    ctx.sample({"scenario": {k: v for k, v in scs[0].items() if k not in ("target",)}})
    ctx.sample({"scenario": {k: v for k, v in scs[-1].items() if k not in ("target", "project", "mem")}})
    se.report(ctx, results, lambda r, clause, ev: {"family": r["sc"]["family"], "policy": r["sc"]["target"]["policy"],
                                                    "fault": (r["sc"]["fault"] or {}).get("kind", "none"), "api": ev.get("api", ev.get("k", ""))})
    ctx.assumptions += ["a session ends with UnRegisterSession or TCP close; a CIP connection only with Forward Close",
                        "after a lost Forward Open reply the driver cannot know the connection: only connections whose reply was "
                        "delivered count for 'target holds no connection of this client'", "at most two faults per scenario"]


def replay(path):
    from . import logix_common as lc
    return lc.replay(path)
