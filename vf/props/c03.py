from . import logix_checks as lc
from .. import tlc

replay = lc.replay
from .c01 import r1


def run(ctx):
    r1(ctx)
    lc.run_family(ctx, ("invalid", "rw", "long", "bits", "inject"), 3,
                  "request lists mixing valid and invalid requests (unknown tag/member, index/count out of range, unencodable or short "
                  "values, misaligned BOOL writes) at every position, lists spanning several multi-service packets, duplicates")
