"""Logix read / write scenario families shared by C01, C02, C03, C04, C11, C13: projects from vf/projgen.py, request lists
derived from the project's structure (never by parsing tag strings with library code), values generated per type."""
import json
import random
import struct

from .. import scenarios as S
from ..projgen import gen_project, atomic, SIZE

R = S.req
INT_CODES = {0xC2: (1, True), 0xC3: (2, True), 0xC4: (4, True), 0xC5: (8, True), 0xC6: (1, False), 0xC7: (2, False), 0xC8: (4, False), 0xC9: (8, False)}


def is_private(n):
    return n.startswith("ZZZZZZZZZZ") or n.startswith("__")


def is_string(tp):
    vis = [m for m in tp["members"] if not is_private(m["name"])]
    return len(vis) == 2 and vis[0]["name"] == "LEN" and vis[1]["name"] == "DATA" and vis[1]["type"] == atomic(0xC2) and vis[1]["arr"] > 0


def value_for(proj, t, rnd, arr=0):
    if arr:
        if t["k"] == "atomic" and t["code"] == 0xD3:
            return [rnd.random() < 0.5 for _ in range(32 * arr)]
        return [value_for(proj, t, rnd) for _ in range(arr)]
    if t["k"] == "atomic":
        c = t["code"]
        if c == 0xC1:
            return rnd.random() < 0.5
        if c in INT_CODES:
            w, sg = INT_CODES[c]
            lo, hi = (-(1 << (8 * w - 1)), (1 << (8 * w - 1)) - 1) if sg else (0, (1 << (8 * w)) - 1)
            return rnd.choice([lo, hi, 0, 1, -1 if sg else 2, rnd.randint(lo, hi)])
        if c == 0xCA:
            return struct.unpack("<f", struct.pack("<f", rnd.choice([0.0, 1.5, -2.75, 3.0e38, 1e-40, rnd.uniform(-1e5, 1e5)])))[0]
        if c == 0xCB:
            return rnd.choice([0.0, -1.25, 1e300, rnd.uniform(-1e9, 1e9)])
        if c == 0xD3:
            return [rnd.random() < 0.5 for _ in range(32)]
        return 0
    tp = proj["templates"][str(t["tid"])]
    if is_string(tp):
        cap = tp["members"][1]["arr"]
        n = rnd.choice([0, 1, cap - 1, cap, cap + 1, cap + 2, cap + 7, rnd.randint(0, cap)])
        return "".join(chr(rnd.choice([65, 97, 48, 32, 0xE9, rnd.randint(33, 255)])) for _ in range(max(0, n)))
    v = {}
    for m in tp["members"]:
        if is_private(m["name"]):
            continue
        if m.get("bit") is not None:
            v[m["name"]] = rnd.random() < 0.5
        else:
            v[m["name"]] = value_for(proj, m["type"], rnd, m["arr"])
    return v


def bad_value_for(proj, t, rnd):
    if t["k"] == "atomic" and t["code"] in INT_CODES:
        w, sg = INT_CODES[t["code"]]
        return rnd.choice([(1 << (8 * w)) + 5, -(1 << (8 * w)), "text", None, 1.5])
    if t["k"] == "atomic" and t["code"] in (0xCA, 0xCB):
        return rnd.choice(["x", None, [1.0]] + ([1e39] if t["code"] == 0xCA else []))
    if t["k"] == "struct":
        tp = proj["templates"][str(t["tid"])]
        if is_string(tp):
            return rnd.choice([5, None, ["a"]])
        v = value_for(proj, t, rnd)
        if v:
            v.pop(next(iter(v)))
        return v
    return None


class Picker:
    """Enumerates addressable locations of a project."""

    def __init__(self, proj, rnd):
        self.p, self.rnd = proj, rnd
        self.tags = [s for s in proj["symbols"] if s["kind"] == "tag" and not s.get("sysflag") and ":" not in s["name"] and not s["name"].startswith("__")]

    def dims(self, s):
        return [d for d in s["dims"] if d]

    def descend(self, levels, t, depth):
        """Optionally walk into members of a struct type: returns (levels, type, arr)."""
        rnd = self.rnd
        arr = 0
        while t["k"] == "struct" and depth > 0 and rnd.random() < 0.7:
            tp = self.p["templates"][str(t["tid"])]
            if is_string(tp) and rnd.random() < 0.8:
                break
            cands = [m for m in tp["members"] if not is_private(m["name"])]
            if not cands:
                break
            m = rnd.choice(cands)
            if m["arr"] and not (m["type"]["k"] == "atomic" and m["type"]["code"] == 0xD3) and rnd.random() < 0.75:
                levels = levels + [(m["name"], [rnd.randint(0, m["arr"] - 1)])]
                arr = 0
            else:
                levels = levels + [(m["name"], [])]
                arr = m["arr"]
            t = m["type"]
            depth -= 1
            if m.get("bit") is not None or arr:
                break
        return levels, t, arr

    def pick(self, want_write=False):
        """-> (request descriptor, element type, n elements addressed, kind)"""
        rnd = self.rnd
        s = rnd.choice(self.tags)
        t, d = s["type"], self.dims(s)
        scope = s["scope"]
        if t["k"] == "atomic" and t["code"] == 0xD3:                       # BOOL array
            nb = 32 * d[0]
            k = rnd.randint(0, 8)
            if k == 6:                                                          # boundary: the last bit, ranges ending at the end
                return R([(s["name"], [nb - 1])], scope), t, 1, "boolarr-elem"
            if k == 7:
                i = rnd.choice([0, nb - 32, 32 if nb > 32 else 0, nb - 1, nb - 2])
                return R([(s["name"], [i])], scope, count=nb - i), t, 1, "boolarr-aligned" if i % 32 == 0 else "boolarr-range"
            if k == 8:
                return R([(s["name"], [])], scope, count=rnd.choice([nb, 32, nb - 1])), t, 1, "boolarr-aligned"
            if k == 0:
                return R([(s["name"], [])], scope), t, 1, "boolarr"
            if k <= 2:
                return R([(s["name"], [rnd.randint(0, nb - 1)])], scope), t, 1, "boolarr-elem"
            if k == 3:
                i = rnd.choice([0, 32] if nb > 32 else [0])
                return R([(s["name"], [i])], scope, count=rnd.choice([32, nb - i])), t, 1, "boolarr-aligned"
            i = rnd.randint(0, nb - 2)
            return R([(s["name"], [i])], scope, count=rnd.randint(2, nb - i)), t, 1, "boolarr-range"
        levels = [(s["name"], [])]
        count, arr = None, 0
        if d:
            k = rnd.randint(0, 4)
            idx = [rnd.randint(0, x - 1) for x in d]
            lin_left = 1
            for j, x in enumerate(d):
                pass
            if k == 0:
                pass                                                             # whole tag without index: first element
            elif k == 1:
                levels = [(s["name"], idx)]
            elif k == 2:
                levels = [(s["name"], idx)]
                total, lin = 1, 0
                for j, x in enumerate(d):
                    total *= x
                    lin = lin * x + idx[j]
                count = rnd.randint(1, total - lin)
            else:
                total = 1
                for x in d:
                    total *= x
                count = rnd.randint(1, total)
            if k in (1,) and t["k"] == "struct":
                levels, t, arr = self.descend(levels, t, 3)
        else:
            levels, t, arr = self.descend(levels, t, 3)
        bit = None
        if count is None and not arr and t["k"] == "atomic" and t["code"] in INT_CODES and rnd.random() < 0.25:
            bit = rnd.randint(0, 8 * INT_CODES[t["code"]][0] - 1)
        if arr and count is None and rnd.random() < 0.5 and not (t["k"] == "atomic" and t["code"] == 0xD3):
            count = rnd.randint(1, arr)
        return R(levels, scope, bit=bit, count=count), t, (count or 1), "plain"

    def invalid(self):
        rnd = self.rnd
        s = rnd.choice(self.tags)
        d = self.dims(s)
        k = rnd.randint(0, 5)
        if k == 0:
            return R([("NoSuchTag_%d" % rnd.randint(0, 99), [])])
        if k == 5 and s["type"]["k"] == "struct":           # the path goes THROUGH a member that does not exist
            lv = [(s["name"], [] if not d else [0] * len(d)), ("nope", [] if rnd.random() < 0.7 else [1]), (rnd.choice(["level", "x", "LEN"]), [])]
            return R(lv, s["scope"], bit=rnd.choice([None, None, 3]), count=rnd.choice([None, None, 2]))
        if k == 1 and d:
            return R([(s["name"], [x + rnd.randint(0, 3) for x in d])], s["scope"])
        if k == 2 and d:
            total = 1
            for x in d:
                total *= x
            return R([(s["name"], [])], s["scope"], count=total + rnd.randint(1, 5))
        if k == 3 and s["type"]["k"] == "struct":
            return R([(s["name"], [] if not d else [0] * len(d)), ("no_member", [])], s["scope"])
        return R([(s["name"], []), ("bogus", [])], s["scope"]) if s["type"]["k"] == "atomic" else R([("Zz_unknown", [1])])


def write_value(pk, r, t, n, kind, rnd, bad=False):
    proj = pk.p
    if bad:
        return bad_value_for(proj, t, rnd)
    if kind.startswith("boolarr"):
        if r["count"] is None:
            return rnd.random() < 0.5
        c = r["count"]
        return [rnd.random() < 0.5 for _ in range(c + rnd.choice([0, 0, 3]))]
    if r["bit"] is not None:
        return rnd.random() < 0.5
    last = r["levels"][-1]
    if r["count"] is not None:
        v = [value_for(proj, t, rnd) for _ in range(r["count"] + rnd.choice([0, 0, 0, 2, -1]))]
        return v
    # scalar or member array addressed without index
    tparr = member_arr(proj, r)
    if tparr:
        return value_for(proj, t, rnd)        # only the first element is addressed
    return value_for(proj, t, rnd)


def member_arr(proj, r):
    return 0


def config(rnd, i):
    fw = [16, 17, 18, 19, 20, 21, 32][i % 7]
    micro = (i % 9 == 8)
    ident = S.identity(fw=fw, name="2080-LC50-48QWB" if micro else "1756-L83E/B", serial=rnd.getrandbits(32))
    return fw, micro, ident


def session(rnd, i, prefix="rw", n_calls=4, big=None, max_reqs=12, policy=None, caps=True, writes=True, invalid_rate=0.12, n_tags=12):
    fw, micro, ident = config(rnd, i)
    proj, mem, b = gen_project(rnd, n_tags=n_tags, programs=rnd.choice([0, 1, 2]), junk=rnd.random() < 0.5, big_tags=big)
    pk = Picker(proj, rnd)
    calls = [{"api": "open"}]
    for _ in range(n_calls):
        n = rnd.choice([1, 1, 2, 3, 5, rnd.randint(1, max_reqs)])
        if writes and rnd.random() < 0.5:
            reqs = []
            for _ in range(n):
                if rnd.random() < invalid_rate:
                    r = pk.invalid()
                    r["value"] = rnd.choice([1, "x", [1, 2]])
                else:
                    r, t, cnt, kind = pk.pick(True)
                    r["value"] = write_value(pk, r, t, cnt, kind, rnd, bad=rnd.random() < 0.08)
                reqs.append(r)
            reqs = dedupe_overlaps(reqs)
            calls.append(S.write_call(reqs, flat=(len(reqs) == 1 and rnd.random() < 0.5)))
            back = [dict(r, value=None) for r in reqs]
            calls.append(S.read_call(back))
        else:
            reqs = [pk.invalid() if rnd.random() < invalid_rate else pk.pick()[0] for _ in range(n)]
            if rnd.random() < 0.3 and reqs:
                reqs.append(dict(rnd.choice(reqs)))               # duplicate
            calls.append(S.read_call(reqs))
    calls.append({"api": "close"})
    slot = rnd.choice([0, 0, 1, 3])
    sc = {"id": "%s%d" % (prefix, i), "family": "logix-rw" + ("-micro800" if micro else ""),
          "target": {"policy": policy or rnd.choice(["LargeOK", "LargeOK", "LargeRefused"]), "identity": ident},
          "project": proj, "mem": mem,
          "driver": {"kind": "logix", "path": "10.7.%d.%d" % (i % 200, rnd.randint(1, 250)) + ("/%d" % slot if slot else ""),
                     "route": [] if micro else [S.port_seg("bp", slot)], "init_program_tags": True},
          "calls": calls, "chunk": rnd.choice([4096, 4096, 256, 100, 7])}
    if caps:
        sc["target"]["caps"] = [rnd.choice([1, 2, 3, 7, 100, 333, 480, 1000, 3990, 5000]) for _ in range(rnd.choice([0, 3, 10, 40]))]
        sc["target"]["pages"] = [rnd.choice([1, 2, 5, 50]) for _ in range(rnd.choice([0, 2, 8]))]
    return sc


def dedupe_overlaps(reqs):
    """Keep at most one write per tag in a call, except several bit writes of the same word (any order of overlapping
    writes would be a legal serialisation; the specification applies the truthy ones in request order)."""
    seen, out = {}, []
    for r in reqs:
        key = (r["scope"], r["levels"][0][0])
        isbit = r["bit"] is not None
        if key in seen:
            first = seen[key]
            if not (isbit and first["bit"] is not None and first["levels"] == r["levels"]):
                continue
        else:
            seen[key] = r
        out.append(r)
    return out


def bits_sessions(rnd, n, prefix="bits"):
    """BOOL arrays of 1-4 DWORDs and integer tags: systematic boundary requests (last bit, ranges ending at the end,
    whole array) and several bit writes of one word in one call, incl. the same bit written twice."""
    out = []
    for i in range(n):
        nd = rnd.choice([1, 2, 2, 3, 4])
        nb = 32 * nd
        big = [{"name": "Flags", "code": 0xD3, "dims": [nd]}, {"name": "Wd", "code": rnd.choice([0xC2, 0xC3, 0xC4, 0xC5]), "dims": []},
               {"name": "Wa", "code": 0xC4, "dims": [3]}, {"name": "OA", "udt": "Outer", "dims": [3]}]
        sc = session(rnd, i, prefix=prefix, n_calls=0, big=big, n_tags=2)
        width = {0xC2: 8, 0xC3: 16, 0xC4: 32, 0xC5: 64}[big[1]["code"]]
        reads = [R([("Flags", [j])]) for j in sorted({0, 1, 31, 32 % nb, nb - 1, nb - 2, rnd.randint(0, nb - 1)})]
        reads += [R([("Flags", [j])], count=nb - j) for j in sorted({0, nb - 32, nb - 1, nb - 2, 32 % nb})]
        reads += [R([("Flags", [])], count=c) for c in sorted({nb, 32, nb - 1, 2})] + [R([("Flags", [])])]
        reads += [R([("Wd", [])], bit=b) for b in sorted({0, 1, width - 1, rnd.randint(0, width - 1)})] + [R([("Wa", [2])], bit=31)]
        # a BOOL-array member below an indexed level (Outer.flags is BOOL[64])
        reads += [R([("OA", [2]), ("flags", [40])]), R([("OA", [1]), ("flags", [33])]), R([("OA", [0]), ("flags", [5])]), R([("OA", [1]), ("flags", [32])], count=8)]
        rnd.shuffle(reads)
        calls = [{"api": "open"}, S.read_call(reads[:len(reads) // 2]), S.read_call(reads[len(reads) // 2:]),
                 S.write_call([R([("OA", [2]), ("flags", [40])], value=True), R([("OA", [1]), ("flags", [63])], value=False)]),
                 S.write_call([R([("Flags", [5])], count=1, value=True), R([("Flags", [nb - 1])], count=1, value=False)]),
                 S.read_call([R([("Flags", [5])], count=1), R([("Flags", [nb - 1])])]),
                 S.read_call([R([("OA", [2]), ("flags", [40])]), R([("OA", [1]), ("flags", [63])]), R([("OA", [2]), ("flags", [0])], count=64)])]
        b1, b2 = rnd.sample(range(width), 2)
        dup = [R([("Wd", [])], bit=b1, value=False), R([("Wd", [])], bit=b2, value=True), R([("Wd", [])], bit=b1, value=True)]
        if rnd.random() < 0.5:
            dup = [R([("Wd", [])], bit=b1, value=True), R([("Wd", [])], bit=b1, value=False), R([("Wa", [1])], bit=b1 % 32, value=True)]
        calls += [S.write_call(dup), S.read_call([R([("Wd", [])]), R([("Wd", [])], bit=b1), R([("Wa", [])], count=3)])]
        # bit writes next to requests that cannot succeed, at every position, after earlier bit-write calls
        bad1 = dict(R([("Wa", [20])]), value=1)
        bad2 = dict(R([("NoSuchTag", [])], bit=2), value=True)
        mixes = [[bad1, R([("Wd", [])], bit=b2, value=False)], [R([("Wa", [0])], bit=5, value=True), bad2, R([("Wd", [])], bit=b1, value=False)],
                 [bad2, bad1, R([("Wa", [2])], bit=31, value=True)]]
        for mx in mixes[:2] if i % 2 else mixes[1:]:
            calls += [S.write_call(mx), S.read_call([R([("Wd", [])]), R([("Wa", [])], count=3)])]
        j = rnd.choice([0, nb - 32])
        vals = [rnd.random() < 0.5 for _ in range(nb - j)]
        calls += [S.write_call([R([("Flags", [j])], count=nb - j, value=vals)]), S.read_call([R([("Flags", [])], count=nb)]),
                  S.write_call([R([("Flags", [nb - 1])], value=True), R([("Flags", [0])], value=False)]), S.read_call([R([("Flags", [])], count=nb)]),
                  {"api": "close"}]
        sc["calls"] = calls
        sc["family"] = "logix-bits"
        out.append(sc)
    return out


def cross_section(rnd, n, prefix="x"):
    return [session(rnd, i, prefix=prefix, n_calls=3) for i in range(n)]


def redownload_sessions(rnd, n, prefix="rd", failing=False):
    """A new program is downloaded to the controller between two uploads of the same driver object (or the driver is closed
    and re-opened): same tag names, redefined structure behind the same template id, other instance ids."""
    from ..projgen import redownload
    out = []
    for i in range(n):
        fw, micro, ident = config(rnd, i)
        fw = [21, 32, 20, 19][i % 4]                      # instance-id addressing (>= 21) in half of the sessions
        micro = False
        ident = S.identity(fw=fw, name="1756-L83E/B", serial=rnd.getrandbits(32))
        proj, mem, b = gen_project(rnd, n_tags=4, programs=1 if failing else rnd.choice([0, 1]), junk=False, twin=True, wide=False)
        p2, m2 = redownload(proj, mem, rnd)
        reads = [R([("TwinTag", [])]), R([("TwinTag", []), ("a", [])]), R([("TwinTag", []), ("b", [])]), R([("TwinArr", [1]), ("n", [])]),
                 R([("PlainD", [])]), R([("TwinArr", [0])], count=2), R([("TwinTag", []), ("u", [])])]
        rnd.shuffle(reads)
        rd = S.read_call(reads)
        wr = S.write_call([R([("TwinTag", []), ("a", [])], value=rnd.randint(-1000, 1000)), R([("PlainD", [])], value=rnd.randint(0, 99)),
                           R([("TwinArr", [1]), ("n", [])], value=rnd.randint(0, 30000))])
        wr2 = S.write_call([R([("TwinTag", []), ("a", [])], value=1.5), R([("PlainD", [])], value=rnd.randint(0, 99)),
                            R([("TwinArr", [1]), ("n", [])], value=rnd.randint(0, 30000))])
        env = {"api": "_env", "intent": {"project": p2, "mem": m2}}
        if i % 2 == 0:
            again = [{"api": "get_tag_list", "program": "*", "view": 1, "intent": {"allprogs": 1}}]
        else:
            again = [{"api": "close"}, {"api": "open", "view": 1}]
        after = [rd, wr2, rd] if (i // 4) % 2 == 0 else [wr2, rd]        # the first request after the new upload: a read / a write
        calls = [{"api": "open", "view": 1}, rd, wr, rd, env] + again + after + [{"api": "close"}]
        out.append({"id": "%s%d" % (prefix, i), "family": "logix-redownload" + ("-micro800" if micro else ""),
                    "target": {"policy": rnd.choice(["LargeOK", "LargeRefused"]), "identity": ident},
                    "project": proj, "mem": mem,
                    "driver": {"kind": "logix", "path": "10.8.%d.%d" % (i % 200, rnd.randint(1, 250)), "route": [] if micro else [S.port_seg("bp", 0)],
                               "init_program_tags": True}, "calls": calls})
        if failing:
            # before the download, an upload that fails half-way (the last page of the symbol list, a program's, is refused
            # after the controller scope and its structures were read): nothing of it may survive into the next upload
            from .. import session
            sc = out[-1]
            sc["calls"] = [{"api": "open", "view": 1}, rd, {"api": "get_tag_list", "program": "*", "view": 1, "intent": {"allprogs": 1}}, env] + again + after + [{"api": "close"}]
            k = 0
            for e in session.run_scenario(dict(sc, calls=[{"api": "open"}, {"api": "close"}]))["events"]:
                b = e.get("b")
                if e["k"] == "tx" and b and b[0] == 0x70 and len(b) > 47 and b[46] == 0x55:
                    k += 1
            sc["target"]["pagefail"] = {str(2 * k): rnd.choice([2, 5, 0x10])}
            sc["family"] += "-after-failed-upload"
    return out


def inject_sessions(rnd, n):
    """Tag services answered with an injected error status (C13)."""
    out = []
    for i in range(n):
        big = [{"name": "BIGI", "code": 0xC4, "dims": [rnd.choice([300, 1500])]}]
        sc = session(rnd, i, prefix="inj", n_calls=3, big=big, max_reqs=6, invalid_rate=0.0, caps=False)
        pk = Picker(sc["project"], rnd)
        extra = [S.read_call([R([("BIGI", [])], count=big[0]["dims"][0])]),
                 S.write_call([R([("BIGI", [])], count=big[0]["dims"][0], value=list(range(big[0]["dims"][0])))])]
        sc["calls"] = sc["calls"][:-1] + extra + [{"api": "close"}]
        k = rnd.randint(1, 14)
        st = rnd.choice([[4], [5], [6], [8], [0x0F], [0x13], [0xFF, 0x2105], [0xFF, 0x2107], [0x10, 0x2101], [rnd.randint(1, 255)]])
        sc["target"]["inject"] = {str(k): st}
        sc["family"] = "logix-inject"
        out.append(sc)
    # a status injected into each fragment of a fragmented write / read in turn (first, middle, last)
    for j in range(max(4, n // 4)):
        nel = rnd.choice([2500, 3000, 4100]) if j % 2 == 0 else rnd.choice([300, 400, 620])
        pol = "LargeOK" if j % 2 == 0 else "LargeRefused"
        big = [{"name": "FRG", "code": 0xC4, "dims": [nel]}]
        sc = session(rnd, 500 + j, prefix="injf", n_calls=0, big=big, n_tags=1, policy=pol, caps=False)
        wr = S.write_call([R([("FRG", [])], count=nel, value=[rnd.randint(-5, 5) for _ in range(nel)])])
        rd = S.read_call([R([("FRG", [])], count=nel)])
        sc["calls"] = [{"api": "open"}] + ([wr, rd] if j % 3 else [rd, wr]) + [{"api": "close"}]
        S0 = 4000 if pol == "LargeOK" else 500
        nfrag = -(-(4 * nel) // (S0 - 24))
        k = rnd.randint(1, max(1, nfrag - 1)) if j % 4 != 3 else rnd.randint(nfrag, 2 * nfrag)      # mostly a non-final fragment of the first transfer
        sc["target"]["inject"] = {str(k): rnd.choice([[4], [5], [0xFF, 0x2105], [0x13], [0x10, 0x2101]])}
        sc["family"] = "logix-inject-fragment"
        out.append(sc)
    return out
