"""C14 - generic messaging delivers the request verbatim and returns the answer.
R1: PathModel (paths), Encap/Router sanity are exercised by every frame judged.  R3: TraceSession clauses C14:*."""
import json
import random

from .. import core, tlc, scenarios as S, session_engine as se
from ..codecgen import d_int, d_str, d_struct, d_arr, d_real


def gen(rnd, n, prefix="g"):
    scs = []
    for i in range(n):
        hops = rnd.choice([[], [("bp", 0)], [("bp", 3)], [("bp", 1), ("enet", "10.11.12.13"), ("bp", 0)]])
        path = "10.0.0.%d" % rnd.randint(1, 250) + "".join("/%s/%s" % h for h in hops)
        route = [S.port_seg(p, l) for p, l in hops]
        calls, script = [{"api": "open"}], []
        for _ in range(rnd.randint(1, 6)):
            c, s = S.generic_call(rnd, route)
            if rnd.random() < 0.3:
                t = rnd.choice([d_int(2, 0), d_int(4, 1), d_str(2, 1), d_real(4), d_struct([("a", d_int(2, 0)), ("b", d_int(1, 1))]),
                                d_arr("unbounded", d_int(2, 1))])
                c["kwargs"]["data_type"] = {"__dtype": t}
                c["intent"]["dtype"] = t
            if rnd.random() < 0.15:                 # a helper that derives its own route from the configured one in between
                sl = rnd.choice([0, 1, 2, 7, 16])
                calls.append({"api": "get_module_info", "slot": sl, "intent": {"slot": sl}})
            calls.append(c)
            script.append(s)
        if i % 5 == 0:
            # a service that may continue answers "partial transfer" (status 6) to a generic message that supplies a data type
            c, s = S.generic_call(rnd, route, mode=rnd.choice(["connected", "connected", "ucmm"]),
                                  script={"status": 6, "ext": [], "data": [rnd.getrandbits(8) for _ in range(rnd.choice([2, 4, 6]))]})
            c["kwargs"]["service"] = c["intent"]["service"] = rnd.choice([0x03, 0x55, 0x52, 0x53, 0x0A])
            c["kwargs"]["data_type"] = {"__dtype": d_int(2, 0)}
            c["intent"]["dtype"] = d_int(2, 0)
            calls.append(c)
            script.append(s)
        calls.append({"api": "close"})
        policy = rnd.choice(["LargeOK", "LargeOK", "LargeRefused"])
        scs.append({"id": "%s%d" % (prefix, i), "family": "generic",
                    "target": {"policy": policy, "script": script, "identity": S.identity(),
                               "handles": [rnd.choice([1, 0x7FFFFFFF, 0x80000000, 0xFFFFFFFF, rnd.getrandbits(32) or 5]), 0x22, 0x23],
                               "cids": [[rnd.getrandbits(8) for _ in range(4)], [9, 9, 9, 9], [8, 8, 8, 8]]},
                    "driver": {"kind": "cip", "path": path, "route": route}, "calls": calls,
                    "chunk": rnd.choice([4096, 1, 7, 24, 100])})
    return scs


def helper_scenarios(rnd, n):
    from . import logix_common as lc
    return lc.helper_scenarios(rnd, n)


def run(ctx):
    thorough = ctx.tier == "thorough"
    r = tlc.must_pass(tlc.run("PathModel", "PathModel.cfg", workers=16, timeout=900), "PathModel")
    ctx.add_tlc(r, "R1")
    rnd = random.Random(ctx.seed * 7 + 14)
    scs = gen(rnd, 2500 if thorough else 400)
    scs += helper_scenarios(rnd, 300 if thorough else 40)
    results = se.run_all(ctx, scs, "c14")
    ctx.traces = len(results)
    ctx.evaluations = sum(sum(1 for c in s["calls"] if c["api"] in ("generic", "get_plc_name", "get_plc_info", "get_module_info", "get_plc_time", "set_plc_time")) for s in scs)
    for s in scs:
        for c in s["calls"]:
            if c["api"] == "generic":
                ctx.nontrivial.add(json.dumps(c["intent"], sort_keys=True))
    ctx.rule = ("CIPDriver sessions of 1-6 generic_message calls: service codes, class/instance/attribute over 8/16/32-bit "
                "boundaries as int or bytes, data lengths 0..400 odd/even, connected / UCMM / Unconnected Send, five route forms, "
                "scripted reply status/ext/data, optional data_type; plus LogixDriver helper sessions (name, info, module info, "
                "get/set time); distinct = distinct generic intents")
    ctx.sample({"scenario": {k: v for k, v in scs[0].items() if k != "target"}})
    se.report(ctx, results, lambda r, clause, ev: {"family": r["sc"]["family"], "api": r["trace"]["events"][max(i for i in range(r["at"]) if r["trace"]["events"][i]["k"] == "call")].get("api", "") if any(e["k"] == "call" for e in r["trace"]["events"][:r["at"]]) else ""})
    ctx.assumptions += ["direct UCMM with a route appends the sized route to the request data (documented behaviour)",
                        "Unconnected Send with route_path=False is unspecified and not generated"]


def replay(path):
    from . import logix_common as lc
    return lc.replay(path)
