"""Shared pieces of the session-based checks: helper scenarios, replay."""
import json

from .. import core, scenarios as S, session_engine as se


def helper_scenarios(rnd, n):
    from ..projgen import small_project
    scs = []
    for i in range(n):
        fw = rnd.choice([16, 19, 20, 21, 32])
        proj, mem = small_project(rnd)
        clock = rnd.choice([0, 1, 1234567890123456, 253402300799999999, rnd.getrandbits(50)])
        newt = rnd.choice([0, 1, 1600000000000000, 253402300799999999, rnd.getrandbits(50)])
        calls = [{"api": "open"}, {"api": "get_plc_name"}, {"api": "get_plc_info"}, {"api": "get_module_info", "slot": rnd.choice([0, 1, 3, 16])},
                 {"api": "get_plc_time"}, {"api": "set_plc_time", "us": newt, "intent": {"us": S.big(newt)}}, {"api": "get_plc_time"}, {"api": "close"}]
        scs.append({"id": "h%d" % i, "family": "helpers",
                    "target": {"policy": rnd.choice(["LargeOK", "LargeRefused"]), "identity": S.identity(fw=fw, serial=rnd.getrandbits(32)), "clock": clock},
                    "project": proj, "mem": mem,
                    "driver": {"kind": "logix", "path": "10.1.1.1/%d" % rnd.choice([0, 1, 2]), "route": []},
                    "calls": calls})
        slot = int(scs[-1]["driver"]["path"].split("/")[1])
        scs[-1]["driver"]["route"] = [S.port_seg("bp", slot)]
    return scs


def replay(path):
    """Re-run the recorded scenario against the current tree and print the verdict."""
    core.assert_repo()
    rec = json.load(open(path))
    sc = rec["replay"]["scenario"]
    ctx = core.Ctx(rec["property"], "quick", 0)
    res = se.run_all(ctx, [sc], "replay", procs=1)
    for r in res:
        print("recorded verdict:", rec["replay"]["verdict"], "at event", rec["replay"]["at"])
        print("verdict now     :", r["verdict"], "at event", r["at"])
        ev = r["trace"]["events"][r["at"] - 1] if 0 < r["at"] <= len(r["trace"]["events"]) else {}
        print(json.dumps(se.slim_event(ev))[:1500])
    return 0
