from . import logix_checks as lc
from .. import tlc

replay = lc.replay


def run(ctx):
    r1(ctx)
    lc.run_family(ctx, ("rw", "long", "window", "bits"), 1,
                  "LogixDriver sessions on generated projects (atomic types, 1-3 dim arrays, BOOL arrays, nested UDTs with packed BOOLs and "
                  "hidden hosts, strings of several capacities, program scope) x firmware 16/19/20/21/32 and Micro800 x connection size "
                  "4000/500 x target fragment capacities; request lists 1..300 incl. indices, slices, members, bits, BOOL ranges, duplicates")


def r1(ctx):
    import os
    for m, cfg in (("Transfer", "Transfer_full.cfg" if ctx.tier == "thorough" else "Transfer.cfg"), ("Grouping", "Grouping.cfg")):
        r = tlc.must_pass(tlc.run(m, cfg, workers=16, timeout=2400, coverage=True), m)
        if r.coverage_zero():
            raise RuntimeError("vacuous %s run: %s" % (m, r.coverage_zero()))
        ctx.add_tlc(r, "R1")
    # the controller model and the user's view agree: canonical services change / return exactly what the view expects
    r = tlc.must_pass(tlc.run("LogixMemModel", "LogixMemModel.cfg", workers=8, timeout=900), "LogixMemModel")
    if r.distinct < 100:
        raise RuntimeError("LogixMemModel explored only %d states" % r.distinct)
    ctx.add_tlc(r, "R1")
