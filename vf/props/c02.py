from . import logix_checks as lc
from .. import tlc

replay = lc.replay
from .c01 import r1


def run(ctx):
    r1(ctx)
    lc.run_family(ctx, ("rw", "window", "invalid", "bits", "inject"), 2,
                  "write calls (atomic, slices, members, bits of SINT..LINT, BOOL-array elements and aligned/misaligned ranges, strings "
                  "around capacity, nested structure dicts, value lists shorter/longer than {n}, duplicates) each followed by a read-back; "
                  "memory of the reference target compared byte for byte with the expected image; ledger of executed write services")
