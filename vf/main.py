"""Entry point: /verif/check <Cxx|selftest|audit> [--tier quick|thorough] [--replay file]"""
import argparse
import importlib
import os
import sys

from . import core


def main(argv=None):
    ap = argparse.ArgumentParser()
    ap.add_argument("what")
    ap.add_argument("--tier", default=os.environ.get("VERIF_TIER", "quick"), choices=["quick", "thorough"])
    ap.add_argument("--replay", default=None)
    a = ap.parse_args(argv)
    seed = int(os.environ.get("VERIF_SEED", "0") or 0)
    what = a.what
    if what in ("selftest", "audit"):
        mod = importlib.import_module("vf." + what)
        return mod.main(a.tier, seed)
    pid = what.upper()
    try:
        mod = importlib.import_module("vf.props." + pid.lower())
    except ModuleNotFoundError:
        print("MACHINERY-FAILURE no check implemented for %s" % pid)
        return 2
    if a.replay:
        return mod.replay(a.replay)
    return core.run_check(pid, mod.run, a.tier, seed)


if __name__ == "__main__":
    sys.exit(main())
