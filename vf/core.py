"""Common plumbing of every check: tiers/seeds, violation grouping, known-findings matching, replay files,
evidence files, exit codes (0 held / 1 violation / 2 machinery failure)."""
import json
import shutil
import os
import sys
import time
import traceback

HOME = os.environ.get("VERIF_HOME", os.path.dirname(os.path.dirname(os.path.abspath(__file__))))
REPO = os.environ.get("VERIF_REPO", "/repo")
OUT = os.path.join(HOME, "out")
EVID = os.path.join(HOME, "evidence") if not os.environ.get("VERIF_AUDIT") else os.path.join(OUT, "audit_evidence")
KNOWN = os.path.join(HOME, "known_findings.json")
MAX_LINES = 25


class Machinery(Exception):
    """The harness, the model or the reference target is at fault - never reported as a property violation."""


def assert_repo():
    import pycomm3
    root = os.path.realpath(REPO)
    f = os.path.realpath(pycomm3.__file__)
    if not f.startswith(root + os.sep):
        raise Machinery("pycomm3 imported from %s, expected under %s" % (f, root))


class Ctx:
    def __init__(self, pid, tier, seed, level="model_checking"):
        self.pid = pid
        self.tier = tier
        self.seed = seed
        self.level = level
        self.t0 = time.time()
        self.states = 0
        self.transitions = 0
        self.traces = 0
        self.evaluations = 0
        self.nontrivial = set()
        self.samples = []
        self.extra = {}
        self.assumptions = []
        self.viol = {}       # group key -> [record, count]
        self.rule = ""
        self.exhaustive = False
        self.notes = []

    # ---- bookkeeping -------------------------------------------------------------------------------------
    def add_tlc(self, res, kind):
        """Account a TLC run: kind 'R1' (exhaustive model), 'R2' (generation) or 'R3' (trace validation)."""
        self.states += res.distinct
        self.transitions += res.generated
        k = self.extra.setdefault("tlc_runs", {}).setdefault(kind, {"runs": 0, "distinct_states": 0,
                                                                   "states_generated": 0, "wall_s": 0.0})
        k["runs"] += 1
        k["distinct_states"] += res.distinct
        k["states_generated"] += res.generated
        k["wall_s"] = round(k["wall_s"] + res.wall, 2)

    def sample(self, s, limit=6):
        if len(self.samples) < limit:
            self.samples.append(s)

    def count(self, key, n=1):
        c = self.extra.setdefault("counts", {})
        c[key] = c.get(key, 0) + n

    def violation(self, clause, key, detail, replay):
        """clause: 'Cxx:name'; key: dict of discriminating fields; replay: JSON-able reproduction data."""
        if not clause.startswith(self.pid + ":"):
            return                      # a clause of another property: reported by that property's check
        gk = clause + "|" + json.dumps(key, sort_keys=True)
        if gk in self.viol:
            self.viol[gk][1] += 1
        else:
            self.viol[gk] = [{"clause": clause, "key": key, "detail": detail, "replay": replay}, 1]

    # ---- finishing ---------------------------------------------------------------------------------------
    def finish(self):
        known = load_known()
        lines, unlisted = [], 0
        rdir = os.path.join(OUT, "replays", self.pid)
        os.makedirs(rdir, exist_ok=True)
        n = 0
        known_hit = {}
        for gk, (rec, cnt) in sorted(self.viol.items()):
            f = match_known(known, self.pid, rec)
            if f is not None:
                known_hit.setdefault(f["what"], 0)
                known_hit[f["what"]] += cnt
                continue
            unlisted += 1
            n += 1
            if n <= MAX_LINES:
                path = os.path.join(rdir, "%d.json" % n)
                with open(path, "w") as fh:
                    json.dump({"property": self.pid, "clause": rec["clause"], "key": rec["key"],
                               "detail": rec["detail"], "occurrences": cnt, "seed": self.seed,
                               "tier": self.tier, "replay": rec["replay"]}, fh, indent=1)
                lines.append("VIOLATION property=%s replay=%s  (%s %s x%d: %s)" % (
                    self.pid, path, rec["clause"], json.dumps(rec["key"], sort_keys=True), cnt,
                    str(rec["detail"])[:300]))
        for what, cnt in sorted(known_hit.items()):
            print("KNOWN-FINDING: property=%s %s (x%d)" % (self.pid, what, cnt))
        for ln in lines:
            print(ln)
        if unlisted > MAX_LINES:
            print("... %d further violation groups not printed (counted in evidence)" % (unlisted - MAX_LINES))
        cov = {
            "states": self.states, "transitions": self.transitions,
            "traces_validated_against_impl": self.traces,
            "evaluations": self.evaluations, "distinct_nontrivial": len(self.nontrivial),
            "rule": self.rule, "samples": self.samples or ["(none)"], "exhaustive": self.exhaustive,
            "violation_groups": unlisted, "known_finding_hits": known_hit,
        }
        cov.update(self.extra)
        ev = {"property_id": self.pid, "tier": self.tier, "seed": self.seed, "level": self.level,
              "coverage": cov, "assumptions": self.assumptions, "wall_s": round(time.time() - self.t0, 2),
              "violations": unlisted}
        os.makedirs(EVID, exist_ok=True)
        with open(os.path.join(EVID, self.pid + ".json"), "w") as fh:
            json.dump(ev, fh, indent=1, sort_keys=True)
        print("%s tier=%s seed=%d: %d states / %d transitions in TLC, %d traces validated, %d evaluations, "
              "%d unlisted violation groups, %.1fs" % (self.pid, self.tier, self.seed, self.states,
                                                       self.transitions, self.traces, self.evaluations,
                                                       unlisted, time.time() - self.t0))
        if not unlisted and not os.environ.get("VERIF_KEEP_TRACES"):
            # the converted traces of a green run are of no further use (replay files are self-contained)
            shutil.rmtree(os.path.join(OUT, "traces", str(os.getpid())), ignore_errors=True)
        return 1 if unlisted else 0


def load_known():
    try:
        with open(KNOWN) as fh:
            return json.load(fh)
    except FileNotFoundError:
        return {"findings": [], "fixed": []}


def match_known(known, pid, rec):
    for f in known.get("findings", []):
        if f.get("property") != pid or f.get("clause") != rec["clause"]:
            continue
        ok = True
        for k, v in f.get("match", {}).items():
            have = rec["key"].get(k)
            if isinstance(v, list):
                ok = ok and have in v
            else:
                ok = ok and have == v
        if ok:
            return f
    return None


def run_check(pid, fn, tier, seed):
    """fn(ctx) performs the check.  Translates exceptions into exit code 2."""
    ctx = Ctx(pid, tier, seed)
    try:
        assert_repo()
        fn(ctx)
        return ctx.finish()
    except Exception as ex:          # Machinery, TlcError, anything unexpected inside the harness
        sys.stdout.flush()
        print("MACHINERY-FAILURE property=%s %s: %s" % (pid, type(ex).__name__, str(ex)[:4000]))
        traceback.print_exc()
        return 2
