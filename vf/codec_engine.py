"""Shared engine of the codec properties: runs encode/decode calls of the real classes under a time budget, writes the
events, shards them over parallel TLC processes running TraceCodec.tla, and maps FAIL lines back to events."""
import io
import json
import os
import signal
import subprocess
import sys
import time
from concurrent.futures import ThreadPoolExecutor

from . import core, tlc
from .codecgen import build, describe, shape
from .values import to_term

CALL_BUDGET_S = 5


class _Hang(BaseException):
    pass


def _alarm(signum, frame):
    raise _Hang()


def guarded(fn):
    """Run fn() -> outcome record.  Exceptions are classified against the library's own exception classes."""
    from pycomm3.exceptions import DataError, BufferEmptyError
    signal.signal(signal.SIGALRM, _alarm)
    signal.setitimer(signal.ITIMER_REAL, CALL_BUDGET_S)
    old = sys.getrecursionlimit()
    try:
        r = fn()
        signal.setitimer(signal.ITIMER_REAL, 0)
        return ("ret", r)
    except _Hang:
        return ("out", {"kind": "hang"})
    except RecursionError as ex:
        signal.setitimer(signal.ITIMER_REAL, 0)
        return ("out", {"kind": "exc", "cls": "RecursionError", "data": 0, "empty": 0})
    except BaseException as ex:
        signal.setitimer(signal.ITIMER_REAL, 0)
        return ("out", {"kind": "exc", "cls": type(ex).__name__, "data": 1 if isinstance(ex, DataError) else 0,
                        "empty": 1 if isinstance(ex, BufferEmptyError) else 0})
    finally:
        signal.setitimer(signal.ITIMER_REAL, 0)
        sys.setrecursionlimit(old)


def do_encode(typ, t, v):
    if t["k"] in ("dt", "stringn") and isinstance(v, tuple):
        kind, r = guarded(lambda: typ.encode(*v))
    else:
        kind, r = guarded(lambda: typ.encode(v))
    if kind == "out":
        return r, None
    if isinstance(r, (bytes, bytearray)):
        return {"kind": "bytes", "b": list(r)}, bytes(r)
    return {"kind": "val", "v": to_term(r)}, None


def do_decode(typ, data, stream=False):
    if stream:
        s = io.BytesIO(data)
        kind, r = guarded(lambda: typ.decode(s))
        if kind == "out":
            return r
        return {"kind": "val", "v": to_term(r), "pos": s.tell()}
    kind, r = guarded(lambda: typ.decode(data))
    if kind == "out":
        return r
    return {"kind": "val", "v": to_term(r)}


def strip(t):
    """descriptor without harness-only fields is not needed: TLC ignores extra record fields"""
    return t


class Recorder:
    def __init__(self):
        self.events = []
        self.meta = []          # parallel list: human description per event
        self._cache = {}

    def typ(self, t):
        key = json.dumps(t, sort_keys=True)
        if key not in self._cache:
            self._cache[key] = build(t)
        return self._cache[key]

    def add(self, ev, t, label):
        self.events.append(ev)
        self.meta.append({"type": describe(t) if t else "", "shape": shape(t) if t else "", "label": label})

    # ---- event kinds ---------------------------------------------------------------------------------
    def enc(self, t, v, label="enc"):
        out, raw = do_encode(self.typ(t), t, v)
        self.add({"op": "enc", "t": t, "v": to_term(v), "out": out}, t, label)
        return raw

    def enc_kept(self, t, v1, v2, label="enc-kept"):
        """encode(v1) is handed to the caller, then encode(v2) runs on the same type: the first result must still be the
        encoding of v1 (results are values, not views of a buffer the type reuses)."""
        typ = self.typ(t)
        enc = (lambda v: typ.encode(*v)) if t["k"] in ("dt", "stringn") else (lambda v: typ.encode(v))
        kind, r1 = guarded(lambda: enc(v1))
        if kind == "out" or not isinstance(r1, (bytes, bytearray)):
            return
        guarded(lambda: enc(v2))
        self.add({"op": "enc", "t": t, "v": to_term(v1), "out": {"kind": "bytes", "b": list(r1)}}, t, label)

    def dec(self, t, data, label="dec"):
        out = do_decode(self.typ(t), bytes(data))
        self.add({"op": "dec", "t": t, "b": list(data), "out": out}, t, label)

    def rt(self, t, v, label="rt"):
        typ = self.typ(t)
        out, raw = do_encode(typ, t, v)
        if raw is None:
            # no bytes: for an in-domain value this already breaks the round trip (judged by JudgeRt), and the encode
            # outcome itself is judged by the enc event
            self.add({"op": "enc", "t": t, "v": to_term(v), "out": out}, t, label + "/enc")
            self.add({"op": "rt", "t": t, "v": to_term(v), "out": out}, t, label)
            return None
        data = raw
        if t["k"] == "arr" and t["lk"] == "derived":
            n = len(v) // (8 * t["el"]["w"]) if t["el"]["k"] == "bits" else len(v)
            w = t["lt"]["w"]
            if n >= 1 << (8 * w):
                return raw
            data = n.to_bytes(w, "little") + raw
        dout = do_decode(typ, data)
        self.add({"op": "rt", "t": t, "v": to_term(v), "out": dout}, t, label)
        return raw

    def stream(self, t, data, junk, label="stream"):
        out = do_decode(self.typ(t), bytes(data) + bytes(junk), stream=True)
        self.add({"op": "stream", "t": t, "b": list(bytes(data) + bytes(junk)), "out": out}, t, label)

    def dictpos(self, t, vd, vl, label="dictpos"):
        typ = self.typ(t)
        outd, _ = do_encode(typ, t, vd)
        outl, _ = do_encode(typ, t, vl)
        self.add({"op": "dictpos", "t": t, "vd": to_term(vd), "vl": to_term(vl), "outd": outd, "outl": outl}, t, label)

    def code(self, code, typ, sub, payload, label):
        ev = {"op": "code", "code": code, "sub": sub, "v": {"none": 1}, "b": [], "out": {"kind": "none"}}
        if sub == "enc":
            kind, r = guarded(lambda: typ.encode(*payload) if isinstance(payload, tuple) and code in (0xCF, 0xD9) else typ.encode(payload))
            if kind == "out":
                out = r
            elif isinstance(r, (bytes, bytearray)):
                out = {"kind": "bytes", "b": list(r)}
            else:
                out = {"kind": "val", "v": to_term(r)}
            ev.update({"v": to_term(payload), "out": out})
        elif sub == "dec":
            ev.update({"b": list(payload), "out": do_decode(typ, bytes(payload))})
        self.events.append(ev)
        self.meta.append({"type": "code 0x%02x" % code, "shape": "code 0x%02x" % code, "label": label})


def judge(ctx, rec, tag, shard_events=6000, shard_bytes=6_000_000, workers=14, timeout=1500, module="TraceCodec"):
    """Shard rec.events, run TraceCodec on each shard in parallel, return list of (event index, clause)."""
    tdir = os.path.join(core.OUT, "traces", str(os.getpid()))
    os.makedirs(tdir, exist_ok=True)
    shards, cur, size, start = [], [], 0, 0
    for i, ev in enumerate(rec.events):
        s = json.dumps(ev)
        if cur and (len(cur) >= shard_events or size + len(s) > shard_bytes):
            shards.append((start, cur))
            cur, size, start = [], 0, i
        cur.append(s)
        size += len(s)
    if cur:
        shards.append((start, cur))
    paths = []
    for k, (start, evs) in enumerate(shards):
        p = os.path.join(tdir, "%s_%s_%d.json" % (ctx.pid, tag, k))
        with open(p, "w") as fh:
            fh.write("[" + ",".join(evs) + "]")
        paths.append((start, len(evs), p))

    def one(item):
        start, n, p = item
        res = tlc.run(module, module + ".cfg", workers=1, env={"TRACE_FILE": p}, timeout=timeout, xmx="3g")
        return start, n, p, res

    fails = []
    with ThreadPoolExecutor(max_workers=workers) as ex:
        for start, n, p, res in ex.map(one, paths):
            if not res.ok:
                raise core.Machinery(module + " aborted on shard %s (events %d..%d): %s" % (p, start, start + n, res.out[-1800:]))
            ctx.add_tlc(res, "R3")
            for _, i, clause in res.tuples("FAIL"):
                fails.append((start + i - 1, clause))
            os.remove(p)
    return fails


def report(ctx, rec, fails):
    for idx, clause in fails:
        ev, meta = rec.events[idx], rec.meta[idx]
        if clause.startswith("MACHINERY"):
            raise core.Machinery("%s on event %s" % (clause, json.dumps(ev)[:600]))
        out = ev.get("out", ev.get("outd", {}))
        key = {"shape": meta["shape"], "label": meta["label"],
               "outcome": out.get("cls", out.get("kind", "")) if isinstance(out, dict) else ""}
        small = json.loads(json.dumps(ev))
        for f in ("b",):
            if isinstance(small.get(f), list) and len(small[f]) > 80:
                small[f] = small[f][:80] + ["..."]
        ctx.violation(clause, key, {"type": meta["type"], "event": small}, {"kind": "codec-event", "type": meta["type"], "event": ev})


def replay_event(path):
    """Re-run one recorded codec event against the current tree and print recorded vs. current outcome."""
    core.assert_repo()
    from .values import from_term
    rec = json.load(open(path))
    ev = rec["replay"]["event"]
    t = ev.get("t")
    print("type:", rec["replay"].get("type"), "clause:", rec["clause"])
    r = Recorder()
    if ev["op"] == "enc":
        v = from_term(ev["v"]) if "x" not in ev["v"] else None
        if t["k"] in ("dt", "stringn") and isinstance(v, list):
            v = tuple(v)
        r.enc(t, v)
    elif ev["op"] == "dec":
        r.dec(t, bytes(ev["b"]))
    elif ev["op"] == "stream":
        r.stream(t, bytes(ev["b"]), b"")
    elif ev["op"] == "rt":
        v = from_term(ev["v"])
        if t["k"] in ("dt", "stringn") and isinstance(v, list):
            v = tuple(v)
        r.rt(t, v)
    else:
        print(json.dumps(ev)[:2000])
        return 0
    print("recorded:", json.dumps(ev.get("out"))[:600])
    print("now     :", json.dumps(r.events[-1].get("out"))[:600])
    return 0
