"""Scripted replacement for socket.socket (the seam the properties name).  Never imports pycomm3."""
import socket as _socket


class BudgetExceeded(BaseException):
    """Raised when the library makes more raw-socket calls than any terminating execution could need."""


class Script:
    """What the raw socket will do.  recv script: list of chunk sizes (>0), then `end` in {'eof','err',None}.
    send script: list of accepted counts (>0), then `end` in {'zero','err',None}; None = accept everything."""

    def __init__(self, stream=b"", chunks=None, recv_end=None, accepts=None, send_end=None, budget=200000):
        self.stream = stream
        self.pos = 0
        self.chunks = list(chunks or [])
        self.recv_end = recv_end
        self.accepts = list(accepts or [])
        self.send_end = send_end
        self.budget = budget
        self.recv_calls = []      # [requested, given]  given: 0 eof, -1 error
        self.send_calls = []      # [offered bytes, accepted]
        self.sent = b""
        self.closed = False


class FakeRawSocket:
    current = None                # the Script consulted by every instance

    def __init__(self, *a, **kw):
        self.script = FakeRawSocket.current

    # --- configuration calls the library makes -----------------------------------------------------------
    def settimeout(self, t):
        pass

    def setsockopt(self, *a):
        pass

    def connect(self, addr):
        pass

    def bind(self, addr):
        pass

    def close(self):
        self.script.closed = True

    # --- data ---------------------------------------------------------------------------------------------
    def _tick(self):
        s = self.script
        s.budget -= 1
        if s.budget < 0:
            raise BudgetExceeded()

    def recv(self, n):
        s = self.script
        self._tick()
        if s.chunks:
            want = s.chunks[0]
            k = min(want, n, len(s.stream) - s.pos)
            if k <= 0:
                s.chunks = []
            else:
                if k == want:
                    s.chunks.pop(0)
                else:
                    s.chunks[0] = want - k
                data = s.stream[s.pos:s.pos + k]
                s.pos += k
                s.recv_calls.append([n, k])
                return data
        if s.recv_end == "err":
            s.recv_calls.append([n, -1])
            raise _socket.error("scripted failure")
        if isinstance(s.recv_end, str) and s.recv_end.startswith("errno:"):
            s.recv_calls.append([n, -1])
            import errno as _errno
            code = getattr(_errno, s.recv_end[6:])
            raise OSError(code, "scripted " + s.recv_end[6:])
        if s.recv_end == "timeout":
            s.recv_calls.append([n, -1])
            raise _socket.timeout("scripted time-out")
        if s.recv_end == "timeout-once":           # the time-out strikes once; the rest of the frame would arrive afterwards
            s.recv_calls.append([n, -1])
            s.recv_end = None
            s.chunks = [len(s.stream) - s.pos] if s.pos < len(s.stream) else []
            raise _socket.timeout("scripted time-out")
        s.recv_calls.append([n, 0])
        return b""

    def send(self, data):
        s = self.script
        self._tick()
        data = bytes(data)
        if s.accepts:
            k = min(s.accepts.pop(0), len(data))
            s.send_calls.append([data, k])
            s.sent += data[:k]
            return k
        if s.send_end == "zero":
            s.send_calls.append([data, 0])
            return 0
        if s.send_end == "err":
            s.send_calls.append([data, -1])
            raise _socket.error("scripted failure")
        if isinstance(s.send_end, str) and s.send_end.startswith("errno:"):
            s.send_calls.append([data, -1])
            import errno as _errno
            raise OSError(getattr(_errno, s.send_end[6:]), "scripted " + s.send_end[6:])
        s.send_calls.append([data, len(data)])
        s.sent += data
        return len(data)

    def sendall(self, data):
        self.send(data)
