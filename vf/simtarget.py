"""Reference EtherNet/IP target (EIP encapsulation + connection manager + Logix tag/symbol/template objects + generic
scripted objects + PCCC).  It exists only because the driver is synchronous and needs reply bytes at once.  It is NOT
trusted: every choice it makes is logged and TraceSession.tla recomputes what a conforming target does.
Never imports pycomm3."""
import struct

SIZES = {0xC1: 1, 0xC2: 1, 0xC3: 2, 0xC4: 4, 0xC5: 8, 0xC6: 1, 0xC7: 2, 0xC8: 4, 0xC9: 8, 0xCA: 4, 0xCB: 8,
         0xD1: 1, 0xD2: 2, 0xD3: 4, 0xD4: 8}

ST_OK = 0
ST_PATH_UNKNOWN = 0x05        # path destination unknown (no such symbol / member)
ST_PARTIAL = 0x06
ST_SVC_UNSUPPORTED = 0x08
ST_NOT_ENOUGH = 0x13
ST_TOO_MUCH = 0x15
ST_EMBEDDED = 0x1E
ST_GENERAL = 0xFF
EXT_BEYOND_END = 0x2105
EXT_TYPE_MISMATCH = 0x2107


def u16(b, p=0):
    return b[p] | b[p + 1] << 8


def u32(b, p=0):
    return b[p] | b[p + 1] << 8 | b[p + 2] << 16 | b[p + 3] << 24


def p16(n):
    return bytes([n & 0xFF, (n >> 8) & 0xFF])


def p32(n):
    return bytes([(n >> (8 * i)) & 0xFF for i in range(4)])


class Malformed(Exception):
    pass


# ---------------------------------------------------------------------------------------------------------------------
def parse_epath(b):
    """Lenient padded-EPATH parser -> list of segments (the strict one lives in EPath.tla)."""
    segs, p = [], 0
    while p < len(b):
        h = b[p]
        st = h >> 5
        if st == 1:
            lt, fmt = (h >> 2) & 7, h & 3
            if fmt == 0:
                segs.append(("log", lt, b[p + 1]))
                p += 2
            elif fmt == 1:
                segs.append(("log", lt, u16(b, p + 2)))
                p += 4
            else:
                segs.append(("log", lt, u32(b, p + 2)))
                p += 6
        elif st == 0:
            port = h & 15
            if h & 16:
                n = b[p + 1]
                segs.append(("port", port, bytes(b[p + 2:p + 2 + n])))
                p += 2 + n + (n & 1)
            else:
                segs.append(("port", port, bytes([b[p + 1]])))
                p += 2
        elif h == 0x91:
            n = b[p + 1]
            segs.append(("sym", bytes(b[p + 2:p + 2 + n]).decode("latin1")))
            p += 2 + n + (n & 1)
        elif h == 0x80:
            n = 2 * b[p + 1]
            segs.append(("data", bytes(b[p + 2:p + 2 + n])))
            p += 2 + n
        else:
            raise Malformed("segment 0x%02x" % h)
        if p > len(b):
            raise Malformed("segment cut")
    return segs


def mr_reply(service, status, ext=(), data=b""):
    return bytes([service | 0x80, 0, status, len(ext)]) + b"".join(p16(x) for x in ext) + data


# ---------------------------------------------------------------------------------------------------------------------
class Project:
    """Controller project: templates, symbols, memory.  Plain dicts so that it can travel in the trace's cfg event."""

    def __init__(self, d, mem):
        self.d = d
        self.templates = {int(k): v for k, v in d.get("templates", {}).items()}
        self.symbols = d.get("symbols", [])
        self.mem = {k: bytearray(v) for k, v in mem.items()}

    # ---- type helpers: a type is {"k":"atomic","code":c} or {"k":"struct","tid":t}
    def tsize(self, t):
        return SIZES[t["code"]] if t["k"] == "atomic" else self.templates[t["tid"]]["size"]

    def type_header(self, t):
        return p16(t["code"]) if t["k"] == "atomic" else b"\xa0\x02" + p16(self.templates[t["tid"]]["handle"])

    def find_symbol(self, scope, name):
        for s in self.symbols:
            if s["kind"] == "tag" and s["scope"] == scope and s["name"] == name:
                return s
        return None

    def find_instance(self, scope, iid):
        for s in self.symbols:
            if s["kind"] == "tag" and s["scope"] == scope and s["iid"] == iid:
                return s
        return None

    def resolve(self, segs):
        """segments of a tag path -> (memkey, byte offset, element type, elements available, bit or None) or status tuple"""
        i, scope = 0, ""
        if segs and segs[0][0] == "sym" and segs[0][1].startswith("Program:"):
            scope = segs[0][1][len("Program:"):]
            i = 1
        if i >= len(segs):
            return (ST_PATH_UNKNOWN, ())
        if segs[i][0] == "sym":
            sym = self.find_symbol(scope, segs[i][1])
            i += 1
        elif segs[i][0] == "log" and segs[i][1] == 0 and segs[i][2] == 0x6B and i + 1 < len(segs) and segs[i + 1][0] == "log" and segs[i + 1][1] == 1:
            sym = self.find_instance(scope, segs[i + 1][2])
            i += 2
        else:
            return (ST_PATH_UNKNOWN, ())
        if sym is None:
            return (ST_PATH_UNKNOWN, ())
        key = sym["scope"] + "|" + sym["name"]
        t, dims, off, bit = sym["type"], [d for d in sym["dims"] if d], 0, None
        while True:
            idx = []
            while i < len(segs) and segs[i][0] == "log" and segs[i][1] == 2:
                idx.append(segs[i][2])
                i += 1
            if idx:
                if len(idx) != len(dims):
                    return (ST_GENERAL, (EXT_BEYOND_END,))
                lin = 0
                for k, x in enumerate(idx):
                    if x >= dims[k]:
                        return (ST_GENERAL, (EXT_BEYOND_END,))
                    lin = lin * dims[k] + x
                total = 1
                for d in dims:
                    total *= d
                off += lin * self.tsize(t)
                avail = total - lin
            else:
                avail = 1
                for d in dims:
                    avail *= d
            if i >= len(segs):
                return (key, off, t, avail, bit)
            if segs[i][0] != "sym" or t["k"] != "struct" or (dims and not idx):
                return (ST_PATH_UNKNOWN, ())
            tpl = self.templates[t["tid"]]
            mem = next((m for m in tpl["members"] if m["name"] == segs[i][1]), None)
            if mem is None:
                return (ST_PATH_UNKNOWN, ())
            i += 1
            off += mem["off"]
            t = mem["type"]
            dims = [mem["arr"]] if mem["arr"] else []
            if mem.get("bit") is not None:
                if i < len(segs):
                    return (ST_PATH_UNKNOWN, ())
                return (key, off, t, 1, mem["bit"])

    # ---- template serialisation (Logix 5000 Data Access, "Template Object") -------------------------------------------
    def template_blob(self, tid):
        tpl = self.templates[tid]
        out = b""
        for m in tpl["members"]:
            t = m["type"]
            if t["k"] == "atomic":
                tw = t["code"]
            else:
                tw = 0x8000 | t["tid"]
            if m["arr"]:
                tw |= 0x2000
            info = m["bit"] if m.get("bit") is not None else m["arr"]
            out += p16(info) + p16(tw) + p32(m["off"])
        out += (tpl["name"] + ";n" + "x" * tpl.get("namepad", 0)).encode("latin1") + b"\x00"
        for m in tpl["members"]:
            out += m["name"].encode("latin1") + b"\x00"
        defsize = (len(out) + 21 + 3) // 4
        out += bytes(defsize * 4 - 21 - len(out))
        return out, defsize

    def symbol_type_word(self, s):
        t = s["type"]
        nd = len([d for d in s["dims"] if d])
        if s["kind"] != "tag":
            return s.get("typeword", 0x1000 if s["kind"] == "system" else 0x68)
        w = (t["code"] | s.get("bitpos", 0) << 8 if t["k"] == "atomic" else 0x8000 | t["tid"]) | (nd << 13)
        if s.get("sysflag"):
            w |= 0x1000
        return w


# ---------------------------------------------------------------------------------------------------------------------
class Target:
    def __init__(self, cfg, project=None, mem=None, slc=None):
        self.cfg = cfg
        self.policy = cfg.get("policy", "LargeOK")
        self.sessions = set()
        self.conns = {}                 # cid(bytes) -> dict(size, sess, last_seq, last_reply, serial)
        self.handles = list(cfg.get("handles", [0x11, 0x12, 0x13, 0x14, 0x15, 0x16, 0x17, 0x18]))
        self.cids = [bytes(c) for c in cfg.get("cids", [[1, 0, 0xAA, 0x55], [2, 0, 0xAA, 0x55], [3, 0, 0xAA, 0x55],
                                                         [4, 0, 0xAA, 0x55], [5, 0, 0xAA, 0x55], [6, 0, 0xAA, 0x55]])]
        self.identity = cfg.get("identity")
        self.project = Project(project, mem or {}) if project else None
        self.clock = cfg.get("clock", 0)
        self.script = list(cfg.get("script", []))          # scripted replies of generic objects, consumed in order
        self.inject = dict(cfg.get("inject", {}))          # ordinal of executed tag service -> [status, ext...]
        self.caps = list(cfg.get("caps", []))              # fragment capacities, consumed in order
        self.pages = list(cfg.get("pages", []))            # symbol-list page sizes, consumed in order
        self.pagefail = dict(cfg.get("pagefail", {}))      # ordinal of symbol-list request -> general status it is refused with
        self.n_symreq = 0
        self.corrupt = dict(cfg.get("corrupt", {}))        # ordinal of reply frame -> ["cut", n] | ["flip", i, x]
        self.slc = {int(k): dict({"type": v["type"], "words": list(v["words"])}, **({"recs": [list(r) for r in v["recs"]]} if "recs" in v else {}))
                    for k, v in (slc or {}).items()} if slc else None
        self.n_services = 0
        self.n_replies = 0
        self.log = []                                       # message-router log (for C14): dicts
        self.ledger = []                                    # executed write services
        self.events = []                                    # notable target-side events (tooLarge, duplicate, ...)
        self.choice = {}

    # ------------------------------------------------------------------ encapsulation
    def hdr(self, cmd, length, handle, status=0, ctx=bytes(8)):
        return p16(cmd) + p16(length) + (handle if isinstance(handle, bytes) else p32(handle)) + p32(status) + bytes(ctx) + p32(0)

    def handle_frame(self, f):
        """One request frame -> reply frame bytes, or None (no reply: UnRegisterSession, dropped frame).
        self.choice holds the decisions taken (logged with the rx event)."""
        self.choice = {}
        if len(f) < 24:
            self.choice["malformed"] = 1
            return None
        cmd, ln = u16(f, 0), u16(f, 2)
        handle, ctx = bytes(f[4:8]), bytes(f[12:20])
        body = bytes(f[24:])
        reply = None
        if cmd == 0x65:
            if self.policy == "SessionRefused":
                reply = self.hdr(0x65, 0, 0, 0x69, ctx)
            else:
                h = self.handles.pop(0)
                self.sessions.add(p32(h))
                self.choice["handle"] = list(p32(h))
                reply = self.hdr(0x65, 4, h, 0, ctx) + b"\x01\x00\x00\x00"
        elif cmd == 0x66:
            self.sessions.discard(handle)
            return None
        elif cmd == 0x63:
            ident = self.identity_bytes(listid=True)
            item = p16(0x0C) + p16(len(ident)) + ident
            reply = self.hdr(0x63, 2 + len(item), handle, 0, ctx) + p16(1) + item
        elif cmd == 0x6F:
            if handle not in self.sessions:
                reply = self.hdr(0x6F, 0, handle, 0x64, ctx)
            else:
                try:
                    mr = self.cpf_data(body, 0xB2)
                    rep = self.unconnected(mr, handle)
                except (Malformed, IndexError):
                    self.choice["malformed"] = 1
                    rep = mr_reply(0, ST_SVC_UNSUPPORTED)
                cpf = bytes(4) + p16(0) + p16(2) + p16(0) + p16(0) + p16(0xB2) + p16(len(rep)) + rep
                reply = self.hdr(0x6F, len(cpf), handle, 0, ctx) + cpf
        elif cmd == 0x70:
            if handle not in self.sessions:
                reply = self.hdr(0x70, 0, handle, 0x64, ctx)
            else:
                try:
                    cid = bytes(body[12:16])
                    item = self.cpf_data(body, 0xB1, connected=True)
                    conn = self.conns.get(cid)
                    if conn is None or len(item) < 2:
                        self.choice["dropped"] = 1
                        return None
                    seq = u16(item, 0)
                    if conn["last_seq"] == seq:
                        self.choice["duplicate"] = 1
                        rep = conn["last_reply"]
                    else:
                        if len(item) > conn["size"]:
                            self.choice["toolarge_request"] = 1
                        rep = self.message_router(item[2:], conn["size"] - 2, connected=True)
                        conn["last_seq"], conn["last_reply"] = seq, rep
                    cpf = bytes(4) + p16(0) + p16(2) + p16(0xA1) + p16(4) + conn["ot_cid"] + p16(0xB1) + p16(2 + len(rep)) + p16(seq) + rep
                    reply = self.hdr(0x70, len(cpf), handle, 0, ctx) + cpf
                except (Malformed, IndexError):
                    self.choice["malformed"] = 1
                    return None
        else:
            reply = self.hdr(cmd, 0, handle, 0x01, ctx)
        self.n_replies += 1
        c = self.corrupt.get(str(self.n_replies))
        if c:
            self.choice["corrupt"] = c
            if c[0] == "cut":
                reply = reply[:c[1]]
            elif c[0] == "flip" and c[1] < len(reply):
                reply = reply[:c[1]] + bytes([reply[c[1]] ^ c[2]]) + reply[c[1] + 1:]
            elif c[0] == "status32":                    # non-zero encapsulation status on an otherwise complete reply
                reply = reply[:8] + p32(c[1]) + reply[12:]
            elif c[0] == "encap":
                reply = reply[:8] + p32(c[1]) + reply[12:24]
                reply = reply[:2] + p16(0) + reply[4:]
            elif c[0] == "trunc" and 24 <= c[1] < len(reply):      # a well-framed reply whose payload stops early: lengths fixed up
                ds = 44 if reply[0] == 0x70 else 40               # start of the data item's content
                reply = reply[:c[1]]
                reply = reply[:2] + p16(len(reply) - 24) + reply[4:]
                if len(reply) >= ds:
                    reply = reply[:ds - 2] + p16(len(reply) - ds) + reply[ds:]
        return reply

    def cpf_data(self, body, want, connected=False):
        if len(body) < 16 or u16(body, 6) != 2:
            raise Malformed("cpf")
        alen = u16(body, 10)
        p = 12 + alen
        if u16(body, p) != want:
            raise Malformed("data item type")
        n = u16(body, p + 2)
        return bytes(body[p + 4:p + 4 + n])

    def identity_bytes(self, listid=False):
        i = self.identity
        core = p16(i["vendor"]) + p16(i["product_type"]) + p16(i["product_code"]) + bytes([i["rev_major"], i["rev_minor"]]) + \
            bytes(i["status"]) + p32(i["serial"]) + bytes([len(i["name"])]) + bytes(i["name"])
        if not listid:
            return core
        sock = struct.pack(">hH", 2, 44818) + bytes(i.get("ip", [10, 0, 0, 1])) + bytes(8)
        return p16(1) + sock + core + bytes([i.get("state", 3)])

    # ------------------------------------------------------------------ unconnected messages
    def unconnected(self, mr, handle):
        svc = mr[0]
        plen = 2 * mr[1]
        path = parse_epath(mr[2:2 + plen])
        data = mr[2 + plen:]
        if path[:2] == [("log", 0, 6), ("log", 1, 1)] and len(path) == 2:
            if svc in (0x54, 0x5B):
                return self.forward_open(svc, data, handle)
            if svc == 0x4E:
                return self.forward_close(data)
            if svc == 0x52:
                n = u16(data, 2)
                emb = data[4:4 + n]
                q = 4 + n + (n & 1)
                rsize = data[q]
                route = parse_epath(data[q + 2:q + 2 + 2 * rsize])
                self.choice["ucsend"] = 1
                return self.message_router(emb, 504, connected=False, transport="ucsend", route=route,
                                           ucs={"len": n, "pad": list(data[4 + n:q]), "prio": data[0], "ticks": data[1],
                                                "rsize": rsize, "rres": data[q + 1], "route_raw": list(data[q + 2:])})
        return self.message_router(mr, 504, connected=False, transport="ucmm")

    def forward_open(self, svc, d, handle):
        large = svc == 0x5B
        serial = bytes(d[10:18])
        if large:
            size = u32(d, 26) & 0xFFFF
            q = 39
        else:
            size = u16(d, 26) & 0x1FF
            q = 35
        psize = d[q]
        cpath = parse_epath(d[q + 1:q + 1 + 2 * psize])
        self.choice["fo"] = {"large": 1 if large else 0, "size": size}
        refuse = self.policy == "AllRefused" or (large and self.policy == "LargeRefused")
        if refuse:
            return mr_reply(svc, 0x01, (0x0100,) if not large else ()) if not large else mr_reply(svc, ST_SVC_UNSUPPORTED)
        if any(v["serial"] == serial for v in self.conns.values()):
            return mr_reply(svc, 0x01, (0x0100,))          # connection in use / duplicate Forward Open: the triad is still held
        cid = self.cids.pop(0)
        self.conns[cid] = {"size": size, "sess": handle, "last_seq": None, "last_reply": None, "serial": serial,
                           "ot_cid": bytes(d[6:10]), "path": cpath}
        self.choice["cid"] = list(cid)
        return mr_reply(svc, 0, (), cid + bytes(d[6:10]) + serial + p32(0x00204001) + p32(0x00204001) + b"\x00\x00")

    def forward_close(self, d):
        serial = bytes(d[2:10])
        hit = [c for c, v in self.conns.items() if v["serial"] == serial]
        if not hit:
            return mr_reply(0x4E, 0x01, (0x0107,))
        for c in hit:
            del self.conns[c]
        return mr_reply(0x4E, 0, (), serial + b"\x00\x00")

    # ------------------------------------------------------------------ message router
    def message_router(self, mr, cap, connected, transport=None, route=None, ucs=None):
        """mr: message-router request bytes; cap: bytes available for the whole MR reply."""
        svc = mr[0]
        plen = 2 * mr[1]
        if 2 + plen > len(mr):
            raise Malformed("path longer than message")
        rawpath = bytes(mr[2:2 + plen])
        path = parse_epath(rawpath)
        data = bytes(mr[2 + plen:])
        self.log.append({"service": svc, "path": rawpath, "data": data, "transport": transport or ("connected" if connected else "ucmm"),
                         "route": route, "ucs": ucs})
        if svc == 0x0A and path == [("log", 0, 2), ("log", 1, 1)]:
            return self.multi(data, cap)
        return self.service(svc, path, data, cap)

    def multi(self, data, cap):
        n = u16(data, 0)
        offs = [u16(data, 2 + 2 * i) for i in range(n)] + [len(data)]
        reps, any_fail = [], False
        used = 4 + 2 + 2 * n            # reply header + count + offsets
        for i in range(n):
            emb = data[offs[i]:offs[i + 1]]
            svc = emb[0]
            plen = 2 * emb[1]
            path = parse_epath(emb[2:2 + plen])
            r = self.service(svc, path, emb[2 + plen:], cap - used, embedded=True)
            used += len(r)
            if r[2] != 0:
                any_fail = True
            reps.append(r)
        if used > cap:
            self.choice["toolarge_reply"] = used - cap
        body = p16(n)
        off = 2 + 2 * n
        for r in reps:
            body += p16(off)
            off += len(r)
        return mr_reply(0x0A, ST_EMBEDDED if any_fail else 0, (), body + b"".join(reps))

    def service(self, svc, path, data, cap, embedded=False):
        cls = path[0][2] if path and path[0][0] == "log" and path[0][1] == 0 else None
        inst = path[1][2] if len(path) > 1 and path[1][0] == "log" and path[1][1] == 1 else None
        tagsvc = svc in (0x4C, 0x52, 0x4D, 0x53, 0x4E) and self.project is not None and not (cls in (0x6C,) and svc == 0x4C)
        progsym = path and path[0][0] == "sym" and path[0][1].startswith("Program:") and len(path) >= 3 and path[1] == ("log", 0, 0x6B) and svc == 0x55
        if self.slc is not None and svc == 0x4B and cls == 0x67:
            return self.pccc(data)
        if cls == 0x6B and svc == 0x55 and self.project is not None or progsym:
            return self.symbol_list(path, data, cap)
        if cls == 0x6C and inst is not None and self.project is not None and svc in (0x03, 0x4C):
            return self.template(svc, inst, data, cap)
        if tagsvc and (cls in (None, 0x6B)):
            return self.tag_service(svc, path, data, cap)
        if cls == 0x01 and inst == 1 and svc == 0x01 and self.identity and not self.script_pending(svc, path):
            return mr_reply(svc, 0, (), self.identity_bytes())
        if cls == 0x64 and inst == 1 and svc == 0x01 and self.project is not None:
            nm = self.project.d.get("name", "PROG").encode("latin1")
            return mr_reply(svc, 0, (), p16(len(nm)) + nm)
        if cls == 0x8B and inst == 1 and svc == 0x03 and "clock" in self.cfg:
            return mr_reply(svc, 0, (), p16(1) + p16(0x0B) + p16(0) + self.clock.to_bytes(8, "little"))
        if cls == 0x8B and inst == 1 and svc == 0x04 and "clock" in self.cfg:
            if len(data) == 12 and u16(data, 0) == 1 and u16(data, 2) == 6:
                self.clock = int.from_bytes(data[4:12], "little")
                self.choice["clock_set"] = 1
                return mr_reply(svc, 0, (), p16(1) + p16(6) + p16(0))
            return mr_reply(svc, ST_NOT_ENOUGH if len(data) < 12 else ST_TOO_MUCH)
        # generic scripted object
        if self.script:
            s = self.script.pop(0)
            self.choice["script"] = s
            return mr_reply(svc, s["status"], tuple(s.get("ext", [])), bytes(s.get("data", [])))
        self.choice["script"] = {"status": ST_SVC_UNSUPPORTED, "ext": [], "data": []}
        return mr_reply(svc, ST_SVC_UNSUPPORTED)

    def script_pending(self, svc, path):
        return bool(self.script) and self.cfg.get("script_overrides_identity")

    # ------------------------------------------------------------------ Logix tag services
    def tag_service(self, svc, path, data, cap):
        self.n_services += 1
        inj = self.inject.get(str(self.n_services))
        if inj:
            self.choice.setdefault("inject", []).append([self.n_services] + inj)
            return mr_reply(svc, inj[0], tuple(inj[1:]))
        pr = self.project
        r = pr.resolve(path)
        if len(r) == 2:
            return mr_reply(svc, r[0], r[1])
        key, off, t, avail, bit = r
        es = pr.tsize(t)
        mem = pr.mem[key]
        if svc in (0x4C, 0x52):
            if len(data) < (2 if svc == 0x4C else 6):
                return mr_reply(svc, ST_NOT_ENOUGH)
            n = u16(data, 0)
            if n < 1 or n > avail:
                return mr_reply(svc, ST_GENERAL, (EXT_BEYOND_END,))
            hdr = pr.type_header(t)
            if bit is not None:
                val = b"\xff" if mem[off] >> bit & 1 else b"\x00"
                return mr_reply(svc, 0, (), hdr + val)
            total = mem[off:off + n * es]
            start = u32(data, 2) if svc == 0x52 else 0
            if start > len(total):
                return mr_reply(svc, ST_GENERAL, (EXT_BEYOND_END,))
            room = cap - 4 - len(hdr)
            if svc == 0x52 and self.caps:
                c = self.caps.pop(0)
                room = max(0, min(room, c))          # a (rare) empty fragment with status 6 is legal: the client must re-ask
                self.choice.setdefault("caps", []).append(room)
            if room < 0:
                room = 0
            chunk = bytes(total[start:start + room])
            more = start + len(chunk) < len(total)
            if more and svc == 0x4C:
                self.choice["partial_read"] = 1
            return mr_reply(svc, ST_PARTIAL if more else 0, (), hdr + chunk)
        if svc in (0x4D, 0x53):
            hl = 2 if t["k"] == "atomic" else 4
            need = hl + 2 + (4 if svc == 0x53 else 0)
            if len(data) < need:
                return mr_reply(svc, ST_NOT_ENOUGH)
            if bytes(data[:hl]) != pr.type_header(t):
                return mr_reply(svc, ST_GENERAL, (EXT_TYPE_MISMATCH,))
            n = u16(data, hl)
            if n < 1 or n > avail:
                return mr_reply(svc, ST_GENERAL, (EXT_BEYOND_END,))
            if svc == 0x4D:
                val = bytes(data[hl + 2:])
                if bit is not None:
                    if len(val) != 1:
                        return mr_reply(svc, ST_NOT_ENOUGH if len(val) < 1 else ST_TOO_MUCH)
                    if val[0]:
                        mem[off] |= 1 << bit
                    else:
                        mem[off] &= ~(1 << bit) & 0xFF
                    self.ledger.append({"key": key, "off": off, "len": 1, "bit": bit, "svc": svc})
                    return mr_reply(svc, 0)
                if len(val) < n * es:
                    return mr_reply(svc, ST_NOT_ENOUGH)
                if len(val) > n * es:
                    return mr_reply(svc, ST_TOO_MUCH)
                mem[off:off + len(val)] = val
                self.ledger.append({"key": key, "off": off, "len": len(val), "svc": svc})
                return mr_reply(svc, 0)
            start = u32(data, hl + 2)
            val = bytes(data[hl + 6:])
            if start + len(val) > n * es:
                return mr_reply(svc, ST_TOO_MUCH)
            if len(val) == 0:
                return mr_reply(svc, ST_NOT_ENOUGH)
            mem[off + start:off + start + len(val)] = val
            self.ledger.append({"key": key, "off": off + start, "len": len(val), "svc": svc})
            return mr_reply(svc, 0)
        if svc == 0x4E:
            if len(data) < 2:
                return mr_reply(svc, ST_NOT_ENOUGH)
            size = u16(data, 0)
            if t["k"] != "atomic" or bit is not None or size != es or size not in (1, 2, 4, 8):
                return mr_reply(svc, ST_GENERAL, (EXT_TYPE_MISMATCH,))
            if len(data) < 2 + 2 * size:
                return mr_reply(svc, ST_NOT_ENOUGH)
            if len(data) > 2 + 2 * size:
                return mr_reply(svc, ST_TOO_MUCH)
            orm, andm = data[2:2 + size], data[2 + size:2 + 2 * size]
            for i in range(size):
                mem[off + i] = (mem[off + i] | orm[i]) & andm[i]
            self.ledger.append({"key": key, "off": off, "len": size, "svc": svc, "or": list(orm), "and": list(andm)})
            return mr_reply(svc, 0)
        return mr_reply(svc, ST_SVC_UNSUPPORTED)

    # ------------------------------------------------------------------ symbol / template upload
    def symbol_list(self, path, data, cap):
        pr = self.project
        scope = ""
        p = list(path)
        if p and p[0][0] == "sym":
            scope = p[0][1][len("Program:"):]
            p = p[1:]
        start = p[1][2] if len(p) > 1 else 0
        nattr = u16(data, 0)
        attrs = [u16(data, 2 + 2 * i) for i in range(nattr)]
        self.n_symreq += 1
        st = self.pagefail.get(str(self.n_symreq))
        if st:
            self.choice["pagefail"] = st
            return mr_reply(0x55, st)
        if scope and not any(s["kind"] == "program" and s["name"] == "Program:" + scope for s in pr.symbols):
            return mr_reply(0x55, ST_PATH_UNKNOWN)
        todo = sorted([s for s in pr.symbols if s["scope"] == scope and s["iid"] >= start], key=lambda s: s["iid"])
        page = self.pages.pop(0) if self.pages else len(todo)
        page = max(1, page)
        out, k = b"", 0
        for s in todo:
            rec = p32(s["iid"])
            for a in attrs:
                if a == 1:
                    nm = s["name"].encode("latin1")
                    rec += p16(len(nm)) + nm
                elif a == 2:
                    rec += p16(pr.symbol_type_word(s))
                elif a in (3, 5):
                    rec += p32(s.get("addr", 0))
                elif a == 6:
                    rec += p32(s.get("sc", 0x04000000))
                elif a == 8:
                    d = list(s["dims"]) + [0, 0, 0]
                    rec += p32(d[0]) + p32(d[1]) + p32(d[2])
                elif a == 10:
                    rec += bytes([s.get("access", 0)])
            if k >= page or 4 + len(out) + len(rec) > cap:
                break
            out += rec
            k += 1
        self.choice.setdefault("pages", []).append(k)
        return mr_reply(0x55, ST_PARTIAL if k < len(todo) else 0, (), out)

    def template(self, svc, tid, data, cap):
        pr = self.project
        if tid not in pr.templates:
            return mr_reply(svc, ST_PATH_UNKNOWN)
        blob, defsize = pr.template_blob(tid)
        tpl = pr.templates[tid]
        if svc == 0x03:
            out = p16(4)
            for a in (4, 5, 2, 1):
                out += p16(a) + p16(0)
                out += {4: p32(defsize), 5: p32(tpl["size"]), 2: p16(len(tpl["members"])), 1: p16(tpl["handle"])}[a]
            return mr_reply(svc, 0, (), out)
        start, ln = u32(data, 0), u16(data, 4)
        room = cap - 4
        if self.caps and not self.cfg.get("caps_tags_only"):
            room = max(1, min(room, self.caps.pop(0)))
            self.choice.setdefault("caps", []).append(room)
        want = blob[start:start + ln]
        chunk = want[:room]
        return mr_reply(svc, ST_PARTIAL if len(chunk) < len(want) else 0, (), chunk)

    # ------------------------------------------------------------------ PCCC (SLC / MicroLogix)
    def pccc(self, data):
        rl = data[0]
        req_id = data[:rl]
        p = rl
        cmd, sts, tns, fnc = data[p], data[p + 1], data[p + 2:p + 4], data[p + 4]
        q = p + 5

        def field():
            nonlocal q
            v = data[q]
            q += 1
            if v == 0xFF:
                v = u16(data, q)
                q += 2
            return v

        def reply(st, payload=b"", ext=None):
            body = req_id + bytes([cmd | 0x40, st]) + tns + (bytes([ext]) if ext is not None else b"") + payload
            return mr_reply(0x4B, 0, (), body)
        if cmd != 0x0F or fnc not in (0xA2, 0xAB):
            return reply(0x10)
        size = field()
        fno = field()
        ftype = field()
        elem = field()
        sub = field()
        if ftype == 0xA5 and fnc == 0xA2:                    # data-log queue `elem`: the oldest record leaves the queue
            dq = self.slc.get(10000 + elem)
            if dq is None or not dq["recs"]:
                return reply(0xF0, ext=0x06)
            return reply(0, bytes(dq["recs"].pop(0)))
        f = self.slc.get(fno)
        TYPES = {0x89: "N", 0x85: "B", 0x86: "T", 0x87: "C", 0x84: "S", 0x8A: "F", 0x82: "O", 0x83: "I", 0x91: "L", 0x8D: "ST", 0x8E: "A"}
        ESZ = {"N": 1, "B": 1, "T": 3, "C": 3, "S": 1, "F": 2, "O": 1, "I": 1, "L": 2, "ST": 42, "A": 1}
        if f is None or TYPES.get(ftype) != f["type"]:
            return reply(0xF0, ext=0x06)
        ew = ESZ[f["type"]]
        w0 = elem * ew + sub
        nw = (size + 1) // 2
        if size % 2 or w0 + nw > len(f["words"]) or nw == 0:
            return reply(0xF0, ext=0x0A if size % 2 == 0 else 0x0B)
        self.log.append({"pccc": fnc, "file": fno, "type": f["type"], "elem": elem, "sub": sub, "size": size})
        if fnc == 0xA2:
            return reply(0, b"".join(p16(x) for x in f["words"][w0:w0 + nw]))
        rest = data[q:]
        if len(rest) != 2 + size:
            return reply(0x10)
        mask = u16(rest, 0)
        for i in range(nw):
            v = u16(rest, 2 + 2 * i)
            f["words"][w0 + i] = (f["words"][w0 + i] & ~mask & 0xFFFF) | (v & mask)
        self.ledger.append({"file": fno, "w0": w0, "nw": nw, "mask": mask})
        return reply(0)
