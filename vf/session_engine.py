"""Session engine, verification side: runs scenarios in worker processes, converts traces for TraceSession.tla, shards
them over parallel TLC processes and returns one verdict per trace."""
import json
import multiprocessing as mp
import os
from concurrent.futures import ThreadPoolExecutor

from . import core, tlc
from .values import int_term


def cps(s):
    return [ord(c) for c in s]


def big(n):
    return int_term(n)["i"]


def p32(n):
    return [(n >> (8 * i)) & 0xFF for i in range(4)]


# ---------------------------------------------------------------------------------------------------------------------
def tla_type(t):
    return {"k": "atomic", "code": t["code"]} if t["k"] == "atomic" else {"k": "struct", "tid": t["tid"]}


def tla_project(proj, mem):
    tpls = []
    for tid, tp in sorted(proj.get("templates", {}).items(), key=lambda kv: int(kv[0])):
        tpls.append({"id": int(tid), "name": cps(tp["name"]), "handle": tp["handle"], "size": tp["size"],
                     "namepad": tp.get("namepad", 0),
                     "members": [{"name": cps(m["name"]), "t": tla_type(m["type"]), "arr": m["arr"], "off": m["off"],
                                  "bit": m["bit"] if m.get("bit") is not None else -1} for m in tp["members"]]})
    syms = []
    for s in sorted(proj.get("symbols", []), key=lambda s: s["iid"]):
        d = list(s["dims"]) + [0, 0, 0]
        syms.append({"name": cps(s["name"]), "iid": big(s["iid"]), "scope": cps(s["scope"]), "kind": s["kind"],
                     "t": tla_type(s["type"]), "dims": d[:3], "typeword": s.get("typeword", 0x1000 if s["kind"] == "system" else 0x68),
                     "bitpos": s.get("bitpos", 0), "sysflag": 1 if s.get("sysflag") else 0, "sc": p32(s.get("sc", 0x04000000)), "access": s.get("access", 0)})
    m = [{"key": [cps(k.split("|", 1)[0]), cps(k.split("|", 1)[1])], "b": list(v)} for k, v in sorted(mem.items())]
    return {"name": cps(proj.get("name", "PROG")), "templates": tpls, "symbols": syms}, m


def id_tables():
    """id -> text tables for vendors / product types: the literal data tables of the library (not the bidirectional lookup
    dicts derived from them, whose construction is part of what is verified)."""
    from pycomm3.cip import status_info as si
    from pycomm3.cip import VENDORS, PRODUCT_TYPES
    v = getattr(si, "_VENDORS", None) or {k: x for k, x in VENDORS.items() if isinstance(k, int)}
    p = getattr(si, "_PRODUCT_TYPES", None) or {k: x for k, x in PRODUCT_TYPES.items() if isinstance(k, int)}
    return v, p


def tla_identity(ident):
    i = dict(ident)
    i["serial_b"] = p32(i["serial"])
    i.pop("serial")
    VENDORS, PRODUCT_TYPES = id_tables()
    vt, pt = VENDORS.get(i["vendor"]), PRODUCT_TYPES.get(i["product_type"])
    i["vendor_text"] = {"has": 1 if isinstance(vt, str) else 0, "s": cps(vt) if isinstance(vt, str) else []}
    i["ptype_text"] = {"has": 1 if isinstance(pt, str) else 0, "s": cps(pt) if isinstance(pt, str) else []}
    i.setdefault("ip", [10, 0, 0, 1])
    i.setdefault("state", 3)
    return i


def tla_cfg(sc, status_texts=None):
    tgt = dict(sc["target"])
    if tgt.get("identity"):
        tgt["identity"] = tla_identity(tgt["identity"])
    if "clock" in tgt:
        tgt["clock_b"] = list(int(tgt["clock"]).to_bytes(8, "little"))
        tgt.pop("clock")
    for k in ("script", "handles", "cids", "inject", "caps", "pages", "corrupt", "pagefail"):
        tgt.pop(k, None)
    drv = {"kind": sc["driver"]["kind"], "size": sc["driver"].get("size", 4000), "extended": 1,
           "route": sc["driver"].get("route", [])}
    if sc["driver"].get("host"):
        drv["host"] = cps(sc["driver"]["host"])
        drv["port"] = sc["driver"].get("port", 44818)
    cfg = {"k": "cfg", "target": tgt, "driver": drv, "has_project": 1 if sc.get("project") else 0}
    cfg["status_texts"] = status_texts or []
    cfg["ext_texts"] = ext_texts()
    from pycomm3.cip import EXTERNAL_ACCESS
    cfg["access_texts"] = [[k, cps(v)] for k, v in EXTERNAL_ACCESS.items() if isinstance(k, int)]
    cfg["fw"] = (sc["target"].get("identity") or {}).get("rev_major", 0)
    cfg["all_programs"] = 1 if sc["driver"].get("init_program_tags", True) else 0
    if sc.get("slc"):
        cfg["slc"] = [dict({"file": int(k), "type": v["type"], "words": list(v["words"])}, **({"recs": [list(r) for r in v["recs"]]} if "recs" in v else {}))
                      for k, v in sorted(sc["slc"].items(), key=lambda kv: int(kv[0]))]
    if sc.get("project"):
        cfg["project"], cfg["mem"] = tla_project(sc["project"], sc["mem"])
    return cfg


def slim_event(e):
    if e["k"] == "ret":
        return {k: v for k, v in e.items() if k not in ("tb", "tstate")}
    if e["k"] == "call" and e["api"] == "_env" and "identity" in e["intent"] and "serial" in e["intent"]["identity"]:
        return dict(e, intent=dict(e["intent"], identity=tla_identity(e["intent"]["identity"])))
    if e["k"] == "call" and e["api"] == "_env" and "project" in e["intent"] and isinstance(e["intent"]["project"].get("templates"), dict):
        P, mem = tla_project(e["intent"]["project"], e["intent"]["mem"])
        return dict(e, intent={"project": P, "mem": mem})
    return e


REQUIRED = {"call": ("api", "intent", "faulted"), "ret": ("api", "outcome", "cls", "pycomm", "result", "connected", "size", "faulted", "peer_gone"),
            "tx": ("b", "choice"), "rx": ("b",), "lost": ("b",), "connect": ("host", "port"), "fault": ("at", "kind", "n"), "mutated": ("api",),
            "socknew": (), "sockclose": (), "noreply": ()}


def check_shape(tid, events):
    """The trace format of schemas/session_trace.schema.json, checked without third-party packages: an event of an unknown kind
    or without a required field is a harness failure, never a verdict."""
    for i, e in enumerate(events):
        k = e.get("k")
        if k not in REQUIRED:
            raise core.Machinery("trace %s event %d: unknown kind %r" % (tid, i + 1, k))
        miss = [f for f in REQUIRED[k] if f not in e]
        if miss:
            raise core.Machinery("trace %s event %d (%s): missing %s" % (tid, i + 1, k, miss))
        if k in ("tx", "rx", "lost") and not all(isinstance(x, int) and 0 <= x <= 255 for x in e["b"]):
            raise core.Machinery("trace %s event %d: frame bytes out of range" % (tid, i + 1))


def _worker(sc):
    from . import session
    try:
        tr = session.run_scenario(sc)
        return tr
    except BaseException as ex:                      # a harness failure: reported as machinery failure by the caller
        import traceback
        return {"id": sc["id"], "error": "%s: %s\n%s" % (type(ex).__name__, ex, traceback.format_exc()[-1500:])}


_EXT = None


def ext_texts():
    """(general status, extended status) pairs the library has a text for: [[status, ext, text]] (data exported from the code)."""
    global _EXT
    if _EXT is None:
        from pycomm3.cip import EXTEND_CODES
        _EXT = [[st, ext, cps(t)] for st, exts in sorted(EXTEND_CODES.items()) if isinstance(st, int) and 0 <= st <= 255
                for ext, t in sorted(exts.items()) if isinstance(ext, int) and 0 <= ext <= 0xFFFF and isinstance(t, str)]
    return _EXT


def status_texts():
    from pycomm3.cip import SERVICE_STATUS
    return [[k, cps(v)] for k, v in sorted(SERVICE_STATUS.items()) if isinstance(k, int) and 0 <= k <= 255]


def run_all(ctx, scenarios, tag, procs=14, shard_bytes=5_000_000, shard_traces=60, timeout=1700):
    """-> list of dicts {sc, trace, verdict, at}.  Raises Machinery on harness / TLC failures."""
    core.assert_repo()
    texts = status_texts()
    with mp.Pool(procs) as pool:
        traces = pool.map(_worker, scenarios, chunksize=4)
    for tr in traces:
        if "error" in tr:
            raise core.Machinery("scenario %s crashed the harness: %s" % (tr["id"], tr["error"]))
    tdir = os.path.join(core.OUT, "traces", str(os.getpid()))
    os.makedirs(tdir, exist_ok=True)
    docs = []
    for sc, tr in zip(scenarios, traces):
        check_shape(sc["id"], tr["events"][1:])
        evs = [tla_cfg(sc, texts)] + [slim_event(e) for e in tr["events"][1:]]
        docs.append(json.dumps({"id": sc["id"], "events": evs}))
    # shards balanced by trace size (longest first into the lightest shard): one heavy session does not set the wall-clock time
    nshards = max(1, min(len(docs), max(procs, -(-len(docs) // shard_traces), -(-sum(len(d) for d in docs) // shard_bytes))))
    bins = [[0, []] for _ in range(nshards)]
    for i in sorted(range(len(docs)), key=lambda i: -len(docs[i])):
        b = min(bins, key=lambda b: b[0])
        b[0] += len(docs[i])
        b[1].append(i)
    shards = [sorted(b[1]) for b in bins if b[1]]
    paths = []
    for k, idxs in enumerate(shards):
        p = os.path.join(tdir, "%s_%s_%d.json" % (ctx.pid, tag, k))
        with open(p, "w") as fh:
            fh.write("[" + ",".join(docs[i] for i in idxs) + "]")
        paths.append((idxs, p))

    def one(item):
        idxs, p = item
        return idxs, p, tlc.run("TraceSession", "TraceSession.cfg", workers=1, env={"TRACE_FILE": p}, timeout=timeout, xmx="4g")

    verdicts = {}
    with ThreadPoolExecutor(max_workers=procs) as ex:
        for idxs, p, res in ex.map(one, paths):
            if not res.ok:
                raise core.Machinery("TraceSession aborted on %s: %s" % (p, res.out[-2500:]))
            ctx.add_tlc(res, "R3")
            if res.wall > 45 and os.environ.get("VERIF_TIMING"):
                import sys
                print("TIMING shard %.0fs: %s" % (res.wall, [scenarios[i]["id"] for i in idxs]), file=sys.stderr)
            for _, tid, verdict, at in res.tuples("VERDICT"):
                verdicts[tid] = (verdict, at)
            os.remove(p)
    out = []
    for sc, tr in zip(scenarios, traces):
        if sc["id"] not in verdicts:
            raise core.Machinery("no verdict for trace %s" % sc["id"])
        v, at = verdicts[sc["id"]]
        out.append({"sc": sc, "trace": tr, "verdict": v, "at": at})
    return out


def report(ctx, results, keyfn=None):
    """Turn verdicts into violations (clauses joined by '+' all count) / machinery failures."""
    n_frames = 0
    for r in results:
        n_frames += sum(1 for e in r["trace"]["events"] if e["k"] == "tx")
        v = r["verdict"]
        if v == "ok":
            continue
        if v.startswith("MACHINERY"):
            ev = r["trace"]["events"][r["at"] - 1] if r["at"] - 1 < len(r["trace"]["events"]) else {}
            raise core.Machinery("%s in trace %s at event %d: %s" % (v, r["sc"]["id"], r["at"], json.dumps(slim_event(ev))[:1500]))
        ev = r["trace"]["events"][r["at"] - 1] if 0 < r["at"] <= len(r["trace"]["events"]) else {}
        for clause in v.split("+"):
            key = keyfn(r, clause, ev) if keyfn else {"family": r["sc"].get("family", ""), "event": ev.get("k", ""), "api": ev.get("api", "")}
            detail = {"trace": r["sc"]["id"], "at": r["at"], "event": json.loads(json.dumps(slim_event(ev)))}
            if isinstance(detail["event"].get("b"), list) and len(detail["event"]["b"]) > 120:
                detail["event"]["b"] = detail["event"]["b"][:120] + ["..."]
            ctx.violation(clause, key, detail, {"kind": "session", "scenario": r["sc"], "verdict": v, "at": r["at"]})
    ctx.count("frames", n_frames)
    return n_frames
