"""Mutation audit (not a MANIFEST check):  ./check audit  is driven by env AUDIT_ONLY / AUDIT_MODE.
  python -m vf.audit import <dir> <name>   confirm a candidate change (suite green, demo fails with / passes without) and
                                           store it as /verif/seeded/<name>/
  python -m vf.audit detect [name ...]     apply each seeded change to a scratch worktree and run the designated
                                           property check(s) against it; the check must exit 1.
Scratch worktrees live under /var/tmp/pycomm3-mut-* and are removed immediately."""
import json
import os
import shutil
import subprocess
import sys
import time

HOME = os.path.dirname(os.path.dirname(os.path.abspath(__file__)))
SEEDED = os.path.join(HOME, "seeded")
REPO = "/repo"


def sh(cmd, cwd=None, env=None, timeout=3600):
    e = dict(os.environ)
    if env:
        e.update(env)
    p = subprocess.run(cmd, cwd=cwd, env=e, shell=isinstance(cmd, str), stdout=subprocess.PIPE,
                       stderr=subprocess.STDOUT, text=True, timeout=timeout)
    return p.returncode, p.stdout


class Scratch:
    def __init__(self, tag):
        self.dir = "/var/tmp/pycomm3-mut-%s-%d" % (tag, os.getpid())

    def __enter__(self):
        sh(["git", "-C", REPO, "worktree", "prune"])
        rc, out = sh(["git", "-C", REPO, "worktree", "add", "--detach", "-f", self.dir, "HEAD"])
        if rc:
            raise RuntimeError(out)
        return self.dir

    def __exit__(self, *a):
        sh(["git", "-C", REPO, "worktree", "remove", "--force", self.dir])
        shutil.rmtree(self.dir, ignore_errors=True)
        sh(["git", "-C", REPO, "worktree", "prune"])


def apply_patch(wt, patch):
    rc, out = sh(["git", "-C", wt, "apply", "--whitespace=nowarn", patch])
    if rc:
        rc, out = sh(["git", "-C", wt, "apply", "--3way", "--whitespace=nowarn", patch])
    return rc, out


def suite(wt):
    rc, out = sh("/venv/bin/python -m pytest tests/offline -q -p no:cacheprovider -x 2>&1 | tail -3", cwd=wt,
                 env={"PYTHONPATH": wt, "PYTHONDONTWRITEBYTECODE": "1"})
    ok = " passed" in out and " failed" not in out and "error" not in out.lower()
    return ok, out.strip().splitlines()[-1] if out.strip() else ""


def demo(wt, path):
    rc, out = sh(["/venv/bin/python", "-B", path], cwd=wt, env={"PYTHONPATH": wt}, timeout=600)
    return rc, out[-1500:]


def do_import(src, name):
    meta = json.load(open(os.path.join(src, "meta.json")))
    patch = os.path.join(src, "patch.diff")
    with Scratch(name) as wt:
        txt = open(os.path.join(src, "demo.py")).read()
        import re
        txt = re.sub(r"/tmp/seed\d?/C\d\d", wt, txt)        # demos written against the seeding worktree's path
        open(os.path.join(wt, "_demo.py"), "w").write(txt)
        rc0, out0 = demo(wt, "_demo.py")
        rc, out = apply_patch(wt, patch)
        if rc:
            print("IMPORT %s: patch does not apply: %s" % (name, out[-500:]))
            return False
        ok, line = suite(wt)
        rc1, out1 = demo(wt, "_demo.py")
    good = rc0 == 0 and ok and rc1 != 0
    print("IMPORT %s: demo clean rc=%d, suite with patch: %s, demo with patch rc=%d -> %s" % (
        name, rc0, line, rc1, "CONFIRMED" if good else "REJECTED"))
    if not good:
        if rc0:
            print(out0)
        return False
    dst = os.path.join(SEEDED, name)
    os.makedirs(dst, exist_ok=True)
    shutil.copy(patch, os.path.join(dst, "patch.diff"))
    shutil.copy(os.path.join(src, "demo.py"), os.path.join(dst, "demo.py"))
    meta.setdefault("property", name.split("-")[0])
    meta["confirmed"] = {"when": time.strftime("%Y-%m-%d"), "ran": [
        "git worktree add /var/tmp/...; demo.py on clean tree -> exit 0",
        "git apply patch.diff; /venv/bin/python -m pytest tests/offline -> " + line,
        "demo.py with patch -> exit %d" % rc1], "demo_output_with_patch": out1[-600:]}
    meta.setdefault("detect_with", [meta["property"]])
    json.dump(meta, open(os.path.join(dst, "meta.json"), "w"), indent=1)
    return True


def do_detect(names, tier="quick"):
    names = names or sorted(os.listdir(SEEDED))
    results = {}
    for name in names:
        d = os.path.join(SEEDED, name)
        if not os.path.exists(os.path.join(d, "patch.diff")):
            continue
        meta = json.load(open(os.path.join(d, "meta.json")))
        if meta.get("equivalent"):
            results[name] = {"status": "equivalent"}
            print("DETECT %s: not a violation of the property as stated (%s)" % (name, meta["equivalent"][:120]))
            continue
        with Scratch(name) as wt:
            rc, out = apply_patch(wt, os.path.join(d, "patch.diff"))
            if rc:
                results[name] = {"status": "patch-does-not-apply"}
                print("DETECT %s: patch does not apply" % name)
                continue
            det = {}
            for pid in meta.get("detect_with", [meta["property"]]):
                t0 = time.time()
                rc, out = sh([os.path.join(HOME, "check"), pid, "--tier", tier], cwd=HOME,
                             env={"VERIF_REPO": wt, "VERIF_AUDIT": "1", "VERIF_AUDIT_FAST": "1"})
                lines = [l for l in out.splitlines() if l.startswith(("VIOLATION", "MACHINERY"))]
                det[pid] = {"rc": rc, "first": lines[0][:300] if lines else "", "wall": round(time.time() - t0, 1)}
                print("DETECT %s with %s: rc=%d %s" % (name, pid, rc, lines[0][:200] if lines else ""))
            results[name] = det
    # evidence files were rewritten against scratch trees: the caller re-runs the real checks before committing
    json.dump(results, open(os.path.join(HOME, "out", "audit_last.json"), "w"), indent=1)
    caught = [n for n, r in results.items() if any(isinstance(v, dict) and v.get("rc") == 1 for v in r.values()) or r.get("status") == "equivalent"]
    n_eq = sum(1 for r in results.values() if r.get("status") == "equivalent")
    print("AUDIT: %d/%d seeded changes detected (%d more recorded as equivalent)" % (len(caught) - n_eq, len(results) - n_eq, n_eq))
    write_status(results)
    missed = sorted(set(results) - set(caught))
    if missed:
        print("MISSED: " + " ".join(missed))
    return results


def write_status(results):
    """seeded/STATUS.md: which check caught which seeded change in the last audit run (merged with earlier runs)."""
    path = os.path.join(SEEDED, "status.json")
    try:
        allr = json.load(open(path))
    except Exception:
        allr = {}
    allr.update(results)
    json.dump(allr, open(path, "w"), indent=1, sort_keys=True)
    lines = ["# Seeded changes and the checks that catch them", "",
             "Regenerated by `python -m vf.audit detect`; each change is applied to a scratch worktree of /repo HEAD and the",
             "designated check's quick tier must exit 1.", "", "| change | property | what it does | needs | detected by | first clause |", "|---|---|---|---|---|---|"]
    for name in sorted(allr):
        try:
            meta = json.load(open(os.path.join(SEEDED, name, "meta.json")))
        except Exception:
            continue
        r = allr[name]
        det = [p for p, v in r.items() if isinstance(v, dict) and v.get("rc") == 1]
        first = ""
        for p in det:
            f = r[p].get("first", "")
            i = f.find("(")
            first = f[i + 1:i + 60].split(" ")[0] if i >= 0 else ""
            break
        lines.append("| %s | %s | %s | %s | %s | %s |" % (name, meta.get("property", ""), str(meta.get("summary", "")).replace("|", "/")[:160],
                                                        str(meta.get("needs", "")).replace("|", "/")[:140], ", ".join(det) or ("equivalent: " + str(meta["equivalent"])[:200] if meta.get("equivalent") else "**MISSED**"), first))
    open(os.path.join(SEEDED, "STATUS.md"), "w").write("\n".join(lines) + "\n")


def main(tier="quick", seed=0):
    do_detect([], tier)
    return 0


def do_merge(logs):
    """Fold the DETECT lines of earlier audit runs (logs of `vp run`) into seeded/status.json / STATUS.md."""
    import re
    results = {}
    for path in logs:
        for line in open(path, errors="replace"):
            m = re.match(r"DETECT (\S+) with (\S+): rc=(\d+) ?(.*)", line)
            if m:
                name, pid, rc, first = m.group(1), m.group(2), int(m.group(3)), m.group(4)
                results.setdefault(name, {})[pid] = {"rc": rc, "first": re.sub(r"replay=\S+", "replay=...", first)[:300], "wall": 0}
            m = re.match(r"DETECT (\S+): not a violation", line)
            if m:
                results[m.group(1)] = {"status": "equivalent"}
    path = os.path.join(SEEDED, "status.json")
    try:
        allr = json.load(open(path))
    except Exception:
        allr = {}
    for name, r in results.items():
        old = allr.get(name, {})
        if isinstance(old, dict):
            old = {k: v for k, v in old.items() if k not in r}
            old.update(r)
            r = old
        allr[name] = r
    json.dump(allr, open(path, "w"), indent=1, sort_keys=True)
    write_status({})
    print("merged %d results" % len(results))


if __name__ == "__main__":
    if sys.argv[1] == "merge":
        do_merge(sys.argv[2:])
        sys.exit(0)
    if sys.argv[1] == "import":
        sys.exit(0 if do_import(sys.argv[2], sys.argv[3]) else 1)
    if sys.argv[1] == "detect":
        do_detect(sys.argv[2:])
