"""Binding demonstration (not a MANIFEST check):  ./check selftest
 1. trace corruption: a recorded LogixDriver session is corrupted in several ways (wrong read value, truthiness, struct bit,
    frame length, repeated sequence count, corrupted TARGET reply, missing Forward Open); TraceSession must reject each with
    the expected clause - or MACHINERY for target-side corruption;
 2. design models with a planted flaw must fail: SeqCount with members drawing counts violates Fresh."""
import copy
import json
import os
import random

from . import core, tlc, scenarios as S, session, session_engine as se
from .props import logix_rw

R = S.req


def judge(sc, events, name):
    doc = [{"id": name, "events": [se.tla_cfg(sc, se.status_texts())] + [se.slim_event(e) for e in events[1:]]}]
    p = os.path.join(core.OUT, "traces", str(os.getpid()), "selftest.json")
    os.makedirs(os.path.dirname(p), exist_ok=True)
    json.dump(doc, open(p, "w"))
    r = tlc.run("TraceSession", "TraceSession.cfg", workers=1, env={"TRACE_FILE": p}, timeout=300)
    if not r.ok:
        return "TLC-ERROR"
    return r.tuples("VERDICT")[0][2]


def main(tier="quick", seed=0):
    core.assert_repo()
    rnd = random.Random(7)
    sc = logix_rw.session(rnd, 0, prefix="self", n_calls=0, big=[{"name": "D1", "code": 0xC4, "dims": []}, {"name": "A1", "code": 0xC3, "dims": [10]}], n_tags=3, policy="LargeOK", caps=False)
    sc["calls"] = [{"api": "open"}, S.read_call([R([("D1", [])]), R([("A1", [])], count=3), R([("nope", [])])]),
                   S.write_call([R([("D1", [])], value=77), R([("A1", [2])], count=2, value=[9, 8])]),
                   S.read_call([R([("D1", [])]), R([("A1", [])], count=4)]), {"api": "close"}]
    base = session.run_scenario(sc)["events"]
    rets = [i for i, e in enumerate(base) if e["k"] == "ret"]
    txs = [i for i, e in enumerate(base) if e["k"] == "tx"]
    rxs = [i for i, e in enumerate(base) if e["k"] == "rx"]
    cases = []

    def case(name, expect, mutate):
        ev = copy.deepcopy(base)
        mutate(ev)
        cases.append((name, expect, judge(sc, ev, name)))
    case("unchanged", "ok", lambda ev: None)
    case("wrong-read-value", "C01:value", lambda ev: ev[rets[1]]["result"]["tags"][0].__setitem__("value", {"i": [0, 5]}))
    case("invalid-request-truthy", "C03:invalid-truthy", lambda ev: ev[rets[1]]["result"]["tags"][2].__setitem__("truthy", 1))
    case("valid-write-falsy", "C02:valid-write-failed", lambda ev: ev[rets[2]]["result"]["tags"][1].__setitem__("truthy", 0))
    def two(ev):
        ev[rets[1]]["result"]["tags"][0]["value"] = {"i": [0, 5]}
        ev[rets[2]]["result"]["tags"][1]["truthy"] = 0
    case("two-properties-one-trace", "C02:valid-write-failed", two)        # the later violation is not hidden by the earlier one
    case("frame-length-field", "C11:length", lambda ev: ev[txs[5]]["b"].__setitem__(2, ev[txs[5]]["b"][2] + 1))

    def rep(ev):
        ev[txs[-3]]["b"][44], ev[txs[-3]]["b"][45] = ev[txs[-4]]["b"][44], ev[txs[-4]]["b"][45]
    case("repeated-sequence-count", "C17:repeat", rep)
    case("target-reply-corrupted", "MACHINERY:reply-mismatch", lambda ev: ev[rxs[-3]]["b"].__setitem__(-1, ev[rxs[-3]]["b"][-1] ^ 1))

    def nofo(ev):
        k = next(i for i in txs if ev[i].get("choice", {}).get("fo"))
        del ev[k:k + 2]
    case("forward-open-removed", "C10:connected-before-open", nofo)
    ok = True
    for name, expect, got in cases:
        good = got.split("+")[0] == expect or expect in got.split("+")
        ok = ok and good
        print("SELFTEST trace-corruption %-28s expected %-28s got %-40s %s" % (name, expect, got, "ok" if good else "FAILED"))
    r = tlc.run("SeqCount", "SeqCount_orig.cfg", workers=4, timeout=300)
    good = (not r.ok) and r.violated == "Fresh"
    ok = ok and good
    print("SELFTEST planted-flaw SeqCount(MemberTakes=1) violates Fresh: %s" % ("ok" if good else "FAILED"))
    # the trace format: shape check of the harness, and (when the tooling interpreter with jsonschema is present) the JSON schema
    try:
        se.check_shape("selftest", base[1:])
        bad = copy.deepcopy(base)
        del bad[txs[0]]["choice"]
        try:
            se.check_shape("selftest", bad[1:])
            good = False
        except core.Machinery:
            good = True
    except core.Machinery:
        good = False
    ok = ok and good
    print("SELFTEST trace shape check accepts the recorded trace and rejects a tx event without its choice: %s" % ("ok" if good else "FAILED"))
    import shutil
    import subprocess
    if shutil.which("python3-vt"):
        doc = {"id": "selftest", "events": [dict(se.tla_cfg(sc, se.status_texts()))] + [se.slim_event(e) for e in base[1:]]}
        p = os.path.join(core.OUT, "traces", str(os.getpid()), "selftest_schema.json")
        os.makedirs(os.path.dirname(p), exist_ok=True)
        json.dump(doc, open(p, "w"))
        code = ("import json, jsonschema, sys; jsonschema.validate(json.load(open(sys.argv[1])), json.load(open(sys.argv[2])))")
        r = subprocess.run(["python3-vt", "-c", code, p, os.path.join(tlc.HOME, "schemas", "session_trace.schema.json")], capture_output=True, text=True)
        good = r.returncode == 0
        ok = ok and good
        print("SELFTEST recorded trace validates against schemas/session_trace.schema.json: %s %s" % ("ok" if good else "FAILED", r.stderr[-300:] if not good else ""))
    else:
        print("SELFTEST schema validation skipped (python3-vt with jsonschema not on PATH)")
    print("SELFTEST %s" % ("passed" if ok else "FAILED"))
    return 0 if ok else 2
