"""Thin runner around TLC (tla2tools 1.8): invokes the JVM directly (so -Xss takes effect), wraps every
run in a time limit, parses statistics and PrintT tuples.  Nothing here knows about pycomm3."""
import json
import os
import re
import shutil
import subprocess
import time
import uuid

HOME = os.environ.get("VERIF_HOME", os.path.dirname(os.path.dirname(os.path.abspath(__file__))))
SPEC = os.path.join(HOME, "spec")
OUT = os.path.join(HOME, "out")
JARS = "/opt/veriftools/tla/tla2tools.jar:/opt/veriftools/tla/CommunityModules-deps.jar"


class TlcError(Exception):
    pass


class TlcResult:
    def __init__(self, rc, out, wall):
        self.rc = rc
        self.out = out
        self.wall = wall
        self.generated = 0
        self.distinct = 0
        self.depth = 0
        m = re.findall(r"(\d+) states generated, (\d+) distinct states found", out)
        if m:
            self.generated, self.distinct = int(m[-1][0]), int(m[-1][1])
        m = re.findall(r"The depth of the complete state graph search is (\d+)", out)
        if m:
            self.depth = int(m[-1])
        self.ok = rc == 0 and "Model checking completed. No error has been found." in out
        self.violated = None
        m = re.search(r"Error: Invariant (\S+) is violated", out)
        if m:
            self.violated = m.group(1)
        m2 = re.search(r"Error: Action property (\S+) is violated", out)
        if m2:
            self.violated = m2.group(1)
        if "Temporal properties were violated" in out:
            self.violated = self.violated or "temporal"
        if "Error: Deadlock reached" in out:
            self.violated = self.violated or "deadlock"

    def tuples(self, tag):
        """All PrintT(<<tag, ...>>) tuples whose elements are strings / integers / booleans."""
        res = []
        text = self.out
        for m in re.finditer(r'<<\s*"%s"' % re.escape(tag), text):
            i = m.start()
            depth, j, instr = 0, i, False
            while j < len(text):                      # TLC wraps long tuples over several lines: match brackets
                c = text[j]
                if instr:
                    if c == "\\":
                        j += 1
                    elif c == '"':
                        instr = False
                elif c == '"':
                    instr = True
                elif text.startswith("<<", j):
                    depth += 1
                    j += 1
                elif text.startswith(">>", j):
                    depth -= 1
                    j += 1
                    if depth == 0:
                        break
                j += 1
            res.append(parse_tuple(" ".join(text[i:j + 1].split())))
        return res

    def coverage_zero(self):
        """Names of actions that -coverage reports as never taken."""
        zero = []
        for m in re.finditer(r"<(\w+) line \d+, col \d+ to line \d+, col \d+ of module (\w+)>: (\d+):(\d+)", self.out):
            if int(m.group(3)) == 0 and int(m.group(4)) == 0:
                zero.append(m.group(1))
        return zero

    def action_counts(self):
        res = {}
        for m in re.finditer(r"<(\w+) line \d+, col \d+ to line \d+, col \d+ of module (\w+)>: (\d+):(\d+)", self.out):
            res[m.group(1)] = res.get(m.group(1), 0) + int(m.group(4))
        return res


def parse_tuple(s):
    """Parse a TLC-printed tuple of scalars / nested tuples: <<"a", 1, TRUE, <<2, 3>>>>."""
    pos = [0]

    def ws():
        while pos[0] < len(s) and s[pos[0]] in " \t":
            pos[0] += 1

    def val():
        ws()
        if s.startswith("<<", pos[0]):
            pos[0] += 2
            items = []
            ws()
            if s.startswith(">>", pos[0]):
                pos[0] += 2
                return items
            while True:
                items.append(val())
                ws()
                if s.startswith(",", pos[0]):
                    pos[0] += 1
                    continue
                if s.startswith(">>", pos[0]):
                    pos[0] += 2
                    return items
                raise TlcError("cannot parse tuple: " + s)
        if s[pos[0]] == '"':
            j = pos[0] + 1
            buf = []
            while s[j] != '"':
                if s[j] == "\\":
                    j += 1
                buf.append(s[j])
                j += 1
            pos[0] = j + 1
            return "".join(buf)
        m = re.match(r"-?\d+", s[pos[0]:])
        if m:
            pos[0] += len(m.group(0))
            return int(m.group(0))
        m = re.match(r"TRUE|FALSE", s[pos[0]:])
        if m:
            pos[0] += len(m.group(0))
            return m.group(0) == "TRUE"
        raise TlcError("cannot parse tuple: " + s)

    return val()


def run(module, cfg=None, workers=1, timeout=600, env=None, coverage=False, simulate=None, depth=None,
        seed=None, extra=None, xss="256m", xmx=None, keep=False, deadlock=None):
    """Run TLC on spec/<module>.tla with spec/<cfg>.  Returns TlcResult; raises TlcError on time-out or when the
    JVM could not even parse the specification."""
    # mutation audits and seed sweeps (VERIF_AUDIT) re-run the same design models on an unchanged spec many times: their
    # output is cached under out/ keyed by the content of the specification; evidence runs never use the cache
    cache = None
    if os.environ.get("VERIF_AUDIT") and not env and not simulate and not module.startswith("Trace") and cfg and "measured" not in cfg:
        import hashlib
        h = hashlib.sha256()
        for f in sorted(os.listdir(SPEC)):
            if f.endswith((".tla", ".cfg")):
                h.update(f.encode())
                h.update(open(os.path.join(SPEC, f), "rb").read())
        h.update(repr((module, cfg, coverage, depth, seed, extra, deadlock)).encode())
        cache = os.path.join(OUT, "tlc_cache", h.hexdigest()[:32] + ".json")
        if os.path.exists(cache):
            c = json.load(open(cache))
            return TlcResult(c["rc"], c["out"], c["wall"])
    run_id = "%s-%s" % (module, uuid.uuid4().hex[:8])
    meta = os.path.join(OUT, "tlc", run_id)
    os.makedirs(meta, exist_ok=True)
    cmd = ["java", "-Xss" + xss, "-XX:+UseParallelGC", "-Djava.io.tmpdir=" + meta]      # TLC / SANY scratch files go with the metadir
    if xmx:
        cmd.append("-Xmx" + xmx)
    cmd += ["-cp", JARS, "tlc2.TLC", "-workers", str(workers), "-metadir", meta, "-noGenerateSpecTE"]
    if cfg:
        cmd += ["-config", cfg]
    if coverage:
        cmd += ["-coverage", "1"]
    if simulate:
        cmd += ["-simulate", simulate]
    if depth:
        cmd += ["-depth", str(depth)]
    if seed is not None:
        cmd += ["-seed", str(seed)]
    if deadlock is False:
        cmd += ["-deadlock"]
    if extra:
        cmd += list(extra)
    cmd.append(module + ".tla")
    e = dict(os.environ)
    if env:
        e.update(env)
    t0 = time.time()
    try:
        p = subprocess.run(cmd, cwd=SPEC, env=e, stdout=subprocess.PIPE, stderr=subprocess.STDOUT,
                           timeout=timeout, text=True, errors="replace")
    except subprocess.TimeoutExpired as ex:
        if not keep:
            shutil.rmtree(meta, ignore_errors=True)
        raise TlcError("TLC time-out after %ss on %s/%s" % (timeout, module, cfg)) from ex
    wall = time.time() - t0
    if not keep:
        shutil.rmtree(meta, ignore_errors=True)
    res = TlcResult(p.returncode, p.stdout, wall)
    if cache and res.ok:
        os.makedirs(os.path.dirname(cache), exist_ok=True)
        json.dump({"rc": p.returncode, "out": p.stdout, "wall": wall}, open(cache, "w"))
    if "Parsing or semantic analysis failed" in p.stdout or "Semantic errors" in p.stdout or \
            "Lexical error" in p.stdout or "***Parse Error***" in p.stdout:
        raise TlcError("SANY rejected %s:\n%s" % (module, p.stdout[-3000:]))
    return res


def must_pass(res, what):
    """An exhaustive model run must complete without error; anything else is a machinery/model failure."""
    if not res.ok:
        raise TlcError("%s: TLC did not complete cleanly (violated=%s)\n%s" % (what, res.violated, res.out[-4000:]))
    return res
