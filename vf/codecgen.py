"""Type descriptors <-> real pycomm3 type classes, and value generators for the codec properties (C06-C08, C16).
The descriptor is the only thing the TLA+ reference sees; the mapping name -> (width, signedness, prefix width) below is
the positive statement of the CIP format (Vol 1 appendix C) and is written down here independently of the library."""
import random
import struct

INT_NAMES = {(1, 1): "SINT", (2, 1): "INT", (4, 1): "DINT", (8, 1): "LINT",
             (1, 0): "USINT", (2, 0): "UINT", (4, 0): "UDINT", (8, 0): "ULINT"}
INT_ALIASES = {"STIME": (4, 1), "DATE": (2, 0), "TIME_OF_DAY": (4, 0), "FTIME": (4, 1), "LTIME": (8, 1),
               "ITIME": (2, 1), "TIME": (4, 1)}
STR_NAMES = {(1, 1): "SHORT_STRING", (2, 1): "STRING", (4, 1): "LOGIX_STRING", (2, 2): "STRING2"}
BITS_NAMES = {1: "BYTE", 2: "WORD", 4: "DWORD", 8: "LWORD"}


def cps(s):
    return [ord(c) for c in s]


def d_int(w, s, cls=None):
    return {"k": "int", "w": w, "s": s, "cls": cls or INT_NAMES[(w, s)]}


def d_bool():
    return {"k": "bool"}


def d_real(w):
    return {"k": "real", "w": w}


def d_str(lw, cw):
    return {"k": "str", "lw": lw, "cw": cw}


def d_stringn(nested=0):
    return {"k": "stringn", "nested": nested}


def d_bits(w, cls=None):
    return {"k": "bits", "w": w, "cls": cls or BITS_NAMES[w]}


def d_nbytes(n):
    return {"k": "nbytes", "n": n}


def d_arr(lk, el, n=0, lt=None):
    return {"k": "arr", "lk": lk, "n": n, "lt": lt or d_int(2, 0), "el": el}


def d_struct(members):
    return {"k": "struct", "m": [{"n": cps(n) if n else [], "t": t} for n, t in members]}


def d_fixedstr(cap, lw=4, capn=None):
    """cap: size of the character area (with padding); capn: number of characters it can hold (a Logix string tag)"""
    d = {"k": "fixedstr", "cap": cap, "lw": lw}
    if capn is not None:
        d["capn"] = capn
    return d


def d_structtag(size, members, bits, priv):
    return {"k": "structtag", "size": size, "m": [{"n": cps(n), "t": t, "off": off} for n, t, off in members],
            "bits": [{"n": cps(n), "off": off, "bit": bit} for n, off, bit in bits], "priv": [cps(p) for p in priv]}


def d_dt():
    return {"k": "dt"}


def d_ip():
    return {"k": "ip"}


def name_of(c):
    return "".join(chr(x) for x in c)


def describe(t):
    k = t["k"]
    if k == "int":
        return t["cls"]
    if k == "bool":
        return "BOOL"
    if k == "real":
        return "REAL" if t["w"] == 4 else "LREAL"
    if k == "str":
        return STR_NAMES[(t["lw"], t["cw"])]
    if k == "stringn":
        return "STRINGN"
    if k == "bits":
        return t["cls"]
    if k == "nbytes":
        return "n_bytes(%d)" % t["n"]
    if k == "arr":
        ln = {"fixed": str(t["n"]), "derived": describe(t["lt"]), "unbounded": "None"}[t["lk"]]
        return "%s[%s]" % (describe(t["el"]), ln)
    if k == "struct":
        return "Struct(%s)" % ", ".join("%s:%s" % (name_of(m["n"]) or "-", describe(m["t"])) for m in t["m"])
    if k == "fixedstr":
        return "FixedSizeString(%d%s)" % (t["cap"], ", capacity_=%d" % t["capn"] if "capn" in t else "")
    if k == "structtag":
        return "StructTag(size=%d, %s | bits %s)" % (t["size"], ", ".join(
            "%s:%s@%d" % (name_of(m["n"]), describe(m["t"]), m["off"]) for m in t["m"]),
            ",".join("%s@%d.%d" % (name_of(b["n"]), b["off"], b["bit"]) for b in t["bits"]))
    return k.upper()


def shape(t):
    """Coarse class of a descriptor, used as the discriminating key of violation groups."""
    k = t["k"]
    if k == "arr":
        return "arr-%s<%s>" % (t["lk"], shape(t["el"]))
    if k == "struct":
        return "struct"
    if k in ("int", "bits"):
        return t["cls"]
    return describe(t) if k in ("bool", "real", "str", "stringn", "dt", "ip") else k


# ------------------------------------------------------------------------------------------------------------------
def build(t):
    """descriptor -> real pycomm3 type (class, or instance for n_bytes)."""
    import pycomm3.cip as cip
    import pycomm3.custom_types as ct
    k = t["k"]
    if k == "int":
        return getattr(cip, t["cls"])
    if k == "bool":
        return cip.BOOL
    if k == "real":
        return cip.REAL if t["w"] == 4 else cip.LREAL
    if k == "str":
        return getattr(cip, STR_NAMES[(t["lw"], t["cw"])])
    if k == "stringn":
        return cip.STRINGN
    if k == "bits":
        return getattr(cip, t["cls"])
    if k == "nbytes":
        return cip.n_bytes(t["n"])
    if k == "arr":
        el = build(t["el"])
        ln = {"fixed": t["n"], "derived": build(t["lt"]) if t["lk"] == "derived" else None, "unbounded": None}[t["lk"]]
        return cip.Array(ln, el)
    if k == "struct":
        return cip.Struct(*[member(m["t"], name_of(m["n"])) for m in t["m"]])
    if k == "fixedstr":
        if "capn" in t:
            return ct.FixedSizeString(t["cap"], cip.UDINT if t["lw"] == 4 else cip.UINT, capacity_=t["capn"])
        return ct.FixedSizeString(t["cap"], cip.UDINT if t["lw"] == 4 else cip.UINT)
    if k == "structtag":
        return ct.StructTag(*[(member(m["t"], name_of(m["n"])), m["off"]) for m in t["m"]],
                            bit_members={name_of(b["n"]): (b["off"], b["bit"]) for b in t["bits"]},
                            private_members={name_of(p) for p in t["priv"]}, struct_size=t["size"])
    if k == "dt":
        return cip.DATE_AND_TIME
    if k == "ip":
        return ct.IPAddress
    raise ValueError(k)


def member(t, name):
    """A struct member: an instance carrying the name (the class itself when unnamed)."""
    import pycomm3.cip as cip
    if t["k"] == "nbytes":
        return cip.n_bytes(t["n"], name)
    typ = build(t)
    return typ(name) if name else typ


# ------------------------------------------------------------------------------------------------------------------
BOUND64 = [0, 1, 2, 127, 128, 255, 256, 32767, 32768, 65535, 65536, 2 ** 31 - 1, 2 ** 31, 2 ** 32 - 1, 2 ** 32,
           2 ** 63 - 1, 2 ** 63, 2 ** 64 - 1, 0x5555555555555555, 0xAAAAAAAAAAAAAAAA, 0x0102030405060708]


def int_range(t):
    bits = 8 * t["w"]
    return (-(1 << (bits - 1)), (1 << (bits - 1)) - 1) if t["s"] else (0, (1 << bits) - 1)


def int_values(t, rnd, n):
    lo, hi = int_range(t)
    vals = {lo, hi, lo + 1, hi - 1, 0, 1, -1 if lo < 0 else 2}
    for b in BOUND64:
        for x in (b, -b, b - 1, -b - 1):
            if lo <= x <= hi:
                vals.add(x)
    for i in range(8 * t["w"]):
        x = 1 << i
        for y in (x, -x, x - 1):
            if lo <= y <= hi:
                vals.add(y)
    while len(vals) < n:
        vals.add(rnd.randint(lo, hi))
    return sorted(vals)


def float_values(rnd, n, w):
    vals = [0.0, -0.0, 1.0, -1.0, 0.5, 1.5, 3.141592653589793, 1e-45, 1.4e-45, 7e-46, 2e-45, 1.1754943508222875e-38,
            1.1754942106924411e-38, 3.4028234663852886e+38, 3.4028235677973366e+38, 3.4028235677973362e+38,
            1e38, 1e-38, 5e-324, 2.2250738585072014e-308, 1.7976931348623157e+308, 1e300, 16777216.0, 16777217.0,
            16777219.0, 0.1, float("inf"), float("-inf"), float("nan")]
    for _ in range(n):
        kind = rnd.randint(0, 4)
        if kind == 0:
            vals.append(struct.unpack("<d", struct.pack("<Q", rnd.getrandbits(64)))[0])
        elif kind == 1:
            f = struct.unpack("<f", struct.pack("<I", rnd.getrandbits(32)))[0]
            vals.append(f)
        elif kind == 2:                       # a float32 value nudged to sit on / near a rounding tie
            f = struct.unpack("<f", struct.pack("<I", rnd.getrandbits(31) & 0x7F7FFFFF))[0]
            vals.append(f * (1 + rnd.choice([2 ** -24, 2 ** -25, -2 ** -25, 2 ** -30, 3 * 2 ** -26])))
        elif kind == 3:
            vals.append(rnd.uniform(-1e6, 1e6))
        else:
            vals.append(rnd.uniform(-1, 1) * 10 ** rnd.randint(-45, 39))
    return vals


def text(rnd, n, alphabet="latin1"):
    if alphabet == "latin1":
        return "".join(chr(rnd.choice([0, 65, 97, 255, 32, rnd.randint(0, 255)])) for _ in range(n))
    if alphabet == "ascii":
        return "".join(chr(rnd.choice([0, 65, 127, rnd.randint(0, 127)])) for _ in range(n))
    if alphabet == "bmp":
        return "".join(chr(rnd.choice([0, 65, 0xFF, 0x100, 0x20AC, 0xD7FF, 0xE000, 0xFFFF, rnd.randint(0, 0xD7FF)]))
                       for _ in range(n))
    return "".join(chr(rnd.choice([65, 0x100, 0xFFFF, 0x10000, 0x1F600, 0x10FFFF])) for _ in range(n))


def gen_value(t, rnd, size=4):
    """A random in-domain Python value for descriptor t."""
    k = t["k"]
    if k == "int":
        lo, hi = int_range(t)
        return rnd.choice([lo, hi, 0, 1, rnd.randint(lo, hi), rnd.randint(lo, hi)])
    if k == "bool":
        return rnd.choice([True, False])
    if k == "real":
        if t["w"] == 4:
            return struct.unpack("<f", struct.pack("<I", rnd.getrandbits(31) & 0x7F7FFFFF | (rnd.getrandbits(1) << 31)))[0]
        return rnd.choice([0.0, 1.5, -2.25, rnd.uniform(-1e9, 1e9), struct.unpack("<d", struct.pack("<Q", rnd.getrandbits(62)))[0]])
    if k == "str":
        n = rnd.choice([0, 1, 2, 3, rnd.randint(0, 40)])
        return text(rnd, n, "latin1" if t["cw"] == 1 else "bmp")
    if k == "stringn" and t.get("nested"):
        return text(rnd, rnd.randint(0, 12), "ascii")          # as a member/element only the 1-byte form is reachable
    if k == "stringn":
        cw = rnd.choice([1, 2, 4])
        return (text(rnd, rnd.randint(0, 12), {1: "ascii", 2: "bmp", 4: "astral"}[cw]), cw)
    if k == "bits":
        return [rnd.choice([True, False]) for _ in range(8 * t["w"])]
    if k == "nbytes":
        n = t["n"] if t["n"] >= 0 else rnd.randint(1, 9)
        return bytes(rnd.getrandbits(8) for _ in range(n))
    if k == "arr":
        n = t["n"] if t["lk"] == "fixed" else rnd.randint(0, size)
        if t["el"]["k"] == "bits":
            return [rnd.choice([True, False]) for _ in range(n * 8 * t["el"]["w"])]
        return [gen_value(t["el"], rnd, max(1, size - 1)) for _ in range(n)]
    if k == "struct":
        return {name_of(m["n"]): gen_value(m["t"], rnd, size) for m in t["m"]}
    if k == "fixedstr":
        c = t.get("capn", t["cap"])
        return text(rnd, rnd.choice([0, 1, c, rnd.randint(0, c)]), "latin1")
    if k == "structtag":
        v = {name_of(m["n"]): gen_value(m["t"], rnd, size) for m in t["m"] if m["n"] not in t["priv"]}
        for b in t["bits"]:
            v[name_of(b["n"])] = rnd.choice([True, False])
        return v
    if k == "dt":
        return (rnd.choice([0, 1, 2 ** 32 - 1, rnd.getrandbits(32)]), rnd.choice([0, 65535, rnd.getrandbits(16)]))
    if k == "ip":
        return ".".join(str(rnd.choice([0, 1, 9, 10, 99, 100, 255, rnd.randint(0, 255)])) for _ in range(4))
    raise ValueError(k)


def positional(t, v):
    """The positional (sequence) form of a struct value."""
    if t["k"] == "struct" and isinstance(v, dict):
        return [positional(m["t"], v[name_of(m["n"])]) for m in t["m"]]
    if t["k"] == "arr" and isinstance(v, list) and t["el"]["k"] != "bits":
        return [positional(t["el"], x) for x in v]
    return v


def reordered(v, rnd):
    """The same structure value with the dict keys inserted in another order (recursively)."""
    if isinstance(v, dict):
        keys = list(v)
        if len(keys) > 1:
            keys = keys[1:] + keys[:1] if rnd.random() < 0.5 else keys[::-1]
        return {k: reordered(v[k], rnd) for k in keys}
    if isinstance(v, list):
        return [reordered(x, rnd) for x in v]
    return v


def bad_values(t, rnd):
    """(label, value) pairs outside (or at the edge of) the domain of t."""
    k = t["k"]
    out = [("none", None)] if k not in ("dt",) else [("none", (None, None))]
    if k == "int":
        lo, hi = int_range(t)
        out += [("max+1", hi + 1), ("min-1", lo - 1), ("huge", 2 ** 80), ("float-for-int", 1.5), ("str-for-int", "12"),
                ("bytes-for-int", b"\x01"), ("list-for-int", [1]), ("bool-for-int", True),
                ("huge-int", 10 ** 5000), ("huge-int", -(10 ** 4400))]      # beyond Python's int -> str conversion limit
    elif k == "bool":
        out += [("int-for-bool", 5), ("str-for-bool", "x")]
    elif k == "real":
        out += [("str-for-real", "1.0"), ("list-for-real", [1.0]), ("int-for-real", 3), ("bytes-for-real", b"abcd")]
        if t["w"] == 4:
            out += [("real-overflow", 1e39), ("real-overflow", -3.5e38), ("real-overflow", 3.4028235677973366e+38)]
    elif k in ("str", "fixedstr"):
        cw = t.get("cw", 1)
        out += [("int-for-str", 5), ("bytes-for-str", b"ab"), ("list-for-str", ["a"])]
        if cw == 1:
            out += [("unencodable-char", "aĀb"), ("unencodable-char", "\U0001F600")]
        else:
            out += [("unencodable-char", "a\ud800b")]
        if k == "str" and t["lw"] == 1:
            out += [("too-long", "x" * 256), ("too-long", "y" * 300)]
        if k == "str" and t["lw"] == 2:
            out += [("too-long", "x" * 65536)]
        if k == "fixedstr":
            out += [("over-capacity", "z" * (t["cap"] + 1))]
            if "capn" in t:
                out += [("over-capacity", "y" * n) for n in sorted({t["capn"] + 1, t["cap"], t["cap"] + 3})]
    elif k == "stringn":
        out += [("bad-char-size", ("abc", 3)), ("bad-char-size", ("abc", 0)), ("int-for-str", (5, 1)),
                ("bytes-for-str", (b"ab", 1)), ("list-for-str", (["a", "b"], 1)), ("tuple-for-str", (("a",), 2)), ("dict-for-str", ({"a": 1}, 1)),
                ("unencodable-char", ("a\ud800", 2))]
    elif k == "bits":
        n = 8 * t["w"]
        import itertools
        out += [("endless-iterator", itertools.repeat(True)), ("huge-range", range(10 ** 12)),
                ("wrong-bit-length", [True] * (n - 1)), ("wrong-bit-length", [False] * (n + 1)), ("wrong-bit-length", []),
                ("scalar-for-array", 1), ("wrong-bit-length", [True] * (2 * n))]
    elif k == "arr":
        el = t["el"]
        out += [("scalar-for-array", gen_value(el, rnd) if el["k"] not in ("arr", "struct", "bits") else 7)]
        if t["lk"] == "fixed" and t["n"] > 0:
            if el["k"] == "bits":
                full = t["n"] * 8 * el["w"]
                out += [("short-list", [True] * (full - 8 * el["w"])), ("short-list", [True] * (full - 1))]
                out += [("long-list", [True] * (full + 8 * el["w"]))]
            else:
                good = [gen_value(el, rnd) for _ in range(t["n"] + 2)]
                out += [("short-list", good[:t["n"] - 1]), ("short-list", []), ("long-list", good)]
        if el["k"] not in ("bits",):
            # containers that have a length but are not sequences
            n = t["n"] if t["lk"] == "fixed" else 3
            if n > 0:
                vals = [gen_value(el, rnd) for _ in range(n)]
                out += [("dict-for-array", {i + 1: x for i, x in enumerate(vals)}),
                        ("dict-values-for-array", {i: x for i, x in enumerate(vals)}.values())]
                if el["k"] == "int":
                    out += [("set-for-array", set(range(n))), ("frozenset-for-array", frozenset(range(n)))]
        if el["k"] == "int":
            lo, hi = int_range(el)
            n = max(1, t["n"]) if t["lk"] == "fixed" else 2
            out += [("element-out-of-range", [hi + 1] * n), ("element-wrong-type", ["a"] * n), ("element-huge", [10 ** 5000] * n)]
    elif k == "struct":
        good = gen_value(t, rnd)
        if t["m"]:
            pos = positional(t, good)
            out += [("short-list", pos[:-1]), ("short-list", []), ("scalar-for-struct", 5)]
            d = dict(good)
            d.pop(name_of(t["m"][-1]["n"]), None)
            out += [("missing-member", d)]
            first = t["m"][0]
            if first["t"]["k"] == "int":
                d2 = dict(good)
                d2[name_of(first["n"])] = "not-a-number"
                out += [("member-wrong-type", d2)]
    elif k == "structtag":
        good = gen_value(t, rnd)
        keys = list(good)
        if keys:
            d = dict(good)
            d.pop(keys[0])
            out += [("missing-member", d)]
    elif k == "dt":
        out += [("max+1", (2 ** 32, 0)), ("max+1", (0, 65536)), ("min-1", (-1, 0)), ("str-for-int", ("a", 1))]
    elif k == "ip":
        out += [("bad-address", "::1"), ("bad-address", "fe80::1"), ("bad-address", "2001:db8::8a2e:370:7334"),
                ("bad-address", "1.2.3"), ("bad-address", "1.2.3.256"), ("bad-address", "a.b.c.d"), ("bad-address", ""),
                ("int-for-str", 5), ("bad-address", "1.2.3.4.5")]
    return out


# ------------------------------------------------------------------------------------------------------------------
def elementary_alphabet():
    ts = [d_int(w, s) for (w, s) in INT_NAMES] + [d_int(w, s, n) for n, (w, s) in INT_ALIASES.items()]
    ts += [d_bool(), d_real(4), d_real(8)]
    ts += [d_str(1, 1), d_str(2, 1), d_str(4, 1), d_str(2, 2), d_stringn()]
    ts += [d_bits(1), d_bits(2), d_bits(4), d_bits(8), d_bits(2, "ENGUNIT")]
    ts += [d_dt(), d_ip(), d_nbytes(3), d_nbytes(-1), d_fixedstr(5), d_fixedstr(82), d_fixedstr(84, 4, capn=82), d_fixedstr(8, 4, capn=5),
           d_fixedstr(4, 4, capn=1)]
    return ts


def element_alphabet():
    """Types usable as array elements / struct members with a single value (DATE_AND_TIME.encode takes two arguments,
    n_bytes() yields an instance; both are reachable only at top level)."""
    return [t for t in elementary_alphabet() if t["k"] not in ("dt", "nbytes", "stringn")] + [d_stringn(1)]


def random_type(rnd, depth, in_unbounded_tail=True, elem=False, top=True):
    """Random descriptor tree.  Unbounded arrays and n_bytes(-1) swallow the rest of the buffer, so they are only
    generated where nothing follows (top level / last struct member)."""
    leaves = [d_int(*rnd.choice(list(INT_NAMES))), d_bool(), d_real(rnd.choice([4, 8])),
              d_str(*rnd.choice([(1, 1), (2, 1), (4, 1), (2, 2)])), d_bits(rnd.choice([1, 2, 4, 8])),
              d_nbytes(rnd.randint(1, 5)), d_fixedstr(rnd.choice([1, 4, 7, 82])), d_ip(), d_stringn(1)]
    if elem:
        leaves = [x for x in leaves if x["k"] != "nbytes"]      # n_bytes() is an instance: not usable as an array element
    if depth <= 0:
        return rnd.choice(leaves)
    c = rnd.randint(0, 9)
    if c <= 2:
        return rnd.choice(leaves)
    if c <= 4:
        return d_arr("fixed", random_type(rnd, depth - 1, False, True, False), n=rnd.randint(1 if elem else 0, 4))
    if c == 5 and top:          # encode() does not emit the length: only a top-level value can be completed by the caller
        return d_arr("derived", random_type(rnd, depth - 1, False, True, False), lt=d_int(rnd.choice([1, 2, 4, 8]), 0))
    if c == 6 and in_unbounded_tail:
        el = random_type(rnd, depth - 1, False, True, False)
        return d_arr("unbounded", el)
    n = rnd.randint(1, 4)
    names = ["a", "b", "c", "d", "e"]
    mem = []
    for i in range(n):
        last = i == n - 1
        mem.append((names[i], random_type(rnd, depth - 1, in_unbounded_tail and last, False, False)))
    return d_struct(mem)


def width_of(t):
    k = t["k"]
    if k in ("int", "real", "bits"):
        return t["w"]
    if k == "bool":
        return 1
    if k == "fixedstr":
        return t["lw"] + t["cap"]
    if k == "nbytes":
        return t["n"]
    if k == "arr" and t["lk"] == "fixed":
        return t["n"] * width_of(t["el"])
    if k == "structtag":
        return t["size"]
    raise ValueError(k)


def random_structtag(rnd, depth=1):
    """A Logix-style template: members at increasing offsets with padding, BOOL members packed into hidden hosts."""
    members, bits, priv = [], [], []
    off = 0
    nm = rnd.randint(1, 5)
    idx = 0
    for _ in range(nm):
        c = rnd.randint(0, 7)
        name = "m%d" % idx
        idx += 1
        if c == 0:                                   # a hidden host with 1..8 BOOL members
            host = "ZZZZZZZZZZ%s%d" % (name, idx)
            members.append((host, d_int(1, 1), off))
            priv.append(host)
            for b in rnd.sample(range(8), rnd.randint(1, 8)):
                bits.append(("b%d_%d" % (idx, b), off, b))
            off += 1
            continue
        if c == 6:                                   # a visible host word whose bits are also BOOL members
            w = rnd.choice([1, 2, 4])
            off = (off + w - 1) // w * w
            members.append((name, d_int(w, rnd.choice([0, 1])), off))
            for b in rnd.sample(range(8 * w), rnd.randint(1, 4)):
                bits.append(("f%d_%d" % (idx, b), off + b // 8, b % 8))
            off += w
            continue
        if c == 1:
            t = d_fixedstr(rnd.choice([1, 3, 8, 82]))
        elif c == 2:
            t = d_arr("fixed", d_int(*rnd.choice(list(INT_NAMES))), n=rnd.randint(1, 4))
        elif c == 3 and depth > 0:
            t = random_structtag(rnd, depth - 1)
        elif c == 4:
            t = d_real(rnd.choice([4, 8]))
        elif c == 5:
            t = d_arr("fixed", d_bits(4), n=rnd.randint(1, 2))
        else:
            t = d_int(*rnd.choice(list(INT_NAMES)))
        w = width_of(t)
        align = min(8, w) if t["k"] in ("int", "real") else 4
        off = (off + align - 1) // align * align
        members.append((name, t, off))
        off += w
    size = (off + 3) // 4 * 4 + rnd.choice([0, 0, 4])
    return d_structtag(size, members, bits, priv)
