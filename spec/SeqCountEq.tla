----------------------------- MODULE SeqCountEq -----------------------------
(* The closed forms used by apalache/SeqCountInd.tla equal the recursive definitions of SeqCount.tla (checked by TLC  *)
(* for every counter value, last value, number of drawn counts and number of sends of small moduli).                  *)
EXTENDS SeqCount

AdvC(c, k) == ((c - 1 + k) % N) + 1
ClosedFormsAgree ==
    \A c \in 1..N : \A l \in 0..N : \A pre \in 0..(2 * N) : \A s \in 1..(2 * N + 1) :
        LET r == Sends(Adv(c, pre), l, s, FALSE)  c0 == AdvC(c, pre) IN
        /\ Adv(c, pre) = c0
        /\ r.c = AdvC(c0, s)
        /\ r.l = AdvC(c0, s - 1)
        /\ r.b = (c0 = l \/ (N = 1 /\ s >= 2))
=============================================================================
