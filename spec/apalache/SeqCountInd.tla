---------------------------- MODULE SeqCountInd ----------------------------
(* Property C17, unbounded: the sequence counter of SeqCount.tla in closed form (no recursion, so that Apalache can     *)
(* discharge an inductive invariant for the REAL modulus 65535 and histories of any length).                          *)
(* One operation takes `pre` counts that are never sent and then sends `sends` >= 1 messages, each with the next      *)
(* count.  With the measured design (multi-service members draw nothing; a fragmented transfer and an SLC request     *)
(* draw one count first) pre is 0 or 1.                                                                               *)
(* SeqCountEq.tla (checked with TLC) shows that these closed forms equal the recursive definitions of SeqCount.tla.   *)
EXTENDS Integers, Apalache

CONSTANTS
    \* @type: Int;
    N,
    \* @type: Set(Int);
    PreSet

VARIABLES
    \* @type: Int;
    ctr,
    \* @type: Int;
    last,
    \* @type: Bool;
    bad

\* @type: (Int, Int) => Int;
AdvC(c, k) == ((c - 1 + k) % N) + 1

CInit == N = 65535 /\ PreSet = {0, 1}
\* the original design: every member of a multi-service packet drew one count (any k members): pre is any natural number
CInitOrig == N = 65535 /\ PreSet = {0, 1, 65534}

Init == ctr \in 1..N /\ last = 0 /\ bad = FALSE

Op(pre, sends) ==
    LET c0 == AdvC(ctr, pre) IN
    /\ bad' = (bad \/ c0 = last \/ (N = 1 /\ sends >= 2))
    /\ last' = AdvC(c0, sends - 1)
    /\ ctr' = AdvC(c0, sends)

Next == \E pre \in PreSet : \E sends \in Nat : sends >= 1 /\ Op(pre, sends)

Fresh == ~bad
\* inductive: the count sent last is the predecessor of the next count to be drawn
IndInv == /\ ctr >= 1 /\ ctr <= N
          /\ last >= 0 /\ last <= N
          /\ ~bad
          /\ (last = 0 \/ ctr = AdvC(last, 1))
IndInit == ctr = Gen(1) /\ last = Gen(1) /\ bad = Gen(1) /\ IndInv
=============================================================================
