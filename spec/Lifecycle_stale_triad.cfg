\* NEGATIVE model: serial numbers drawn once per driver object - NoViolation is expected to FAIL (reopen-duplicate-connection)
SPECIFICATION Spec
CONSTANTS MaxCalls = 6  MaxIO = 14  TwoFaults = FALSE  MaxPolicyChanges = 0  Gen = FALSE  FreshTriad = FALSE
INVARIANT NoViolation
INVARIANT OnlyLibraryFailures
INVARIANT CloseResetsNoHist
INVARIANT ConnectedMeansOpen
INVARIANT FallbackOrderAndSize
PROPERTY Terminates
PROPERTY ReopenWorks
CHECK_DEADLOCK FALSE
