------------------------------ MODULE Transfer ------------------------------
(* Property C04 (and the transfer part of C01 / C02).  Design = pycomm3's decision "plain service, member of a      *)
(* multi-service packet, or fragmented transfer" and its fragment loops, with the real protocol overheads and a       *)
(* small connection size; Contract = every connected data item (request and solicited reply) fits the connection      *)
(* size S, fragment offsets start at 0 and are contiguous, the value is covered exactly once, the transfer ends.      *)
(* Environment = value length L, path length P, and the fragment length the target chooses for every reply.           *)
(* Overheads (bytes of the connected data item): sequence count 2; request = service 1 + path size 1 + path P;        *)
(* read: element count 2 (+ offset 4 when fragmented); write: data type 2 + count 2 (+ offset 4);                      *)
(* reply = sequence 2 + reply header 4 + data type 2; multi-service: 6 (service+path) + count 2 + offset 2/member.    *)
EXTENDS Integers, Sequences, FiniteSets, FiniteSetsExt, TLC

CONSTANTS Sizes,        \* connection sizes explored
          MaxMult,      \* value lengths 1..MaxMult*S+2
          Paths         \* request path lengths (even)

VARIABLES S, L, P, mode, pc, off, got, cover, sentItem, replyItem, zeros
\* got = number of value bytes received so far (they are contiguous from 0 iff every request asked for offset = got)
vars == <<S, L, P, mode, pc, off, got, cover, sentItem, replyItem, zeros>>

Modes == {"read1", "readN", "write1", "writeN"}      \* single-request path / multi-request path
MOVH  == 10                                            \* MULTISERVICE_READ_OVERHEAD

ReqReadItem   == 2 + 1 + 1 + P + 2
ReqFragItem   == ReqReadItem + 4
WriteMsg      == 2 + 1 + 1 + P + 2 + 2 + L             \* len(request.message) of a Write Tag request (with the sequence count)
WriteFragOvh  == 2 + 1 + 1 + P + 2 + 2 + 4
ReplyOvh      == 2 + 4 + 2
MultiReplyItem(n) == 2 + 4 + 2 + 2 + (4 + 2 + n)       \* one member
MultiReqItem(m)   == 2 + 6 + 2 + 2 + (m - 2)           \* one member whose own message (with sequence count) has length m

\* ---- the Design's decisions (logix_driver.py after the size-estimate repair)
FragRead  == IF mode = "read1" THEN L + 10 > S ELSE L + 10 + MOVH > S
FragWrite == IF mode = "write1" THEN L + WriteMsg > S ELSE WriteMsg + MOVH > S
SegSize   == S - WriteFragOvh

Init == /\ S \in Sizes /\ P \in Paths /\ mode \in Modes
        /\ L \in 1..(MaxMult * S + 2)
        /\ pc = "start" /\ off = 0 /\ got = 0 /\ cover = [i \in 1..L |-> 0]
        /\ sentItem = 0 /\ replyItem = 0 /\ zeros = 0


Start ==
    /\ pc = "start"
    /\ IF mode \in {"read1", "readN"}
       THEN IF FragRead THEN pc' = "rfrag" /\ UNCHANGED <<sentItem, replyItem, got>>
            ELSE /\ pc' = "done"                                              \* one Read Tag, alone or as the only member
                 /\ sentItem' = IF mode = "read1" THEN ReqReadItem ELSE MultiReqItem(ReqReadItem)
                 /\ replyItem' = IF mode = "read1" THEN ReplyOvh + L ELSE MultiReplyItem(L)
                 /\ got' = L
       ELSE IF FragWrite THEN pc' = "wfrag" /\ UNCHANGED <<sentItem, replyItem, got>>
            ELSE /\ pc' = "done"
                 /\ sentItem' = IF mode = "write1" THEN WriteMsg ELSE MultiReqItem(WriteMsg)
                 /\ replyItem' = 2 + 4 + (IF mode = "writeN" THEN 4 + 4 ELSE 0)
                 /\ UNCHANGED got
    /\ cover' = IF mode \in {"write1", "writeN"} /\ ~FragWrite THEN [i \in 1..L |-> 1] ELSE cover
    /\ UNCHANGED <<S, L, P, mode, off, zeros>>

\* fragmented read: ask for `off`, the target returns any n bytes that fit (0 only a bounded number of times)
ReadFrag(n) ==
    /\ pc = "rfrag"
    /\ n \in 0..(S - ReplyOvh) /\ n <= L - off
    /\ (n = 0 => zeros < 2 /\ off < L)
    /\ sentItem' = ReqFragItem /\ replyItem' = ReplyOvh + n
    /\ off = got                                                             \* contract: the offset asked for = bytes received so far
    /\ got' = got + n
    /\ off' = off + n                                                        \* Design: next offset = previous + length of this fragment
    /\ pc' = IF off + n >= L THEN "done" ELSE "rfrag"
    /\ zeros' = IF n = 0 THEN zeros + 1 ELSE zeros
    /\ UNCHANGED <<S, L, P, mode, cover>>

\* fragmented write: segments of SegSize bytes at a running offset
WriteFrag ==
    /\ pc = "wfrag" /\ SegSize >= 1
    /\ LET n == IF L - off < SegSize THEN L - off ELSE SegSize IN
       /\ sentItem' = WriteFragOvh + n /\ replyItem' = 2 + 4
       /\ cover' = [i \in 1..L |-> IF i > off /\ i <= off + n THEN cover[i] + 1 ELSE cover[i]]
       /\ off' = off + n
       /\ pc' = IF off + n >= L THEN "done" ELSE "wfrag"
    /\ UNCHANGED <<S, L, P, mode, got, zeros>>

Next == Start \/ (\E n \in 0..Max(Sizes) : ReadFrag(n)) \/ WriteFrag
Spec == Init /\ [][Next]_vars /\ WF_vars(Next)

(* ------------------------------------------------ Contract ------------------------------------------------ *)
FitsRequest == sentItem <= S
FitsReply   == replyItem <= S
OffsetsContiguous == (mode \in {"read1", "readN"} /\ pc = "rfrag") => off = got
ExactCover  == pc = "done" => IF mode \in {"read1", "readN"} THEN got = L ELSE \A i \in 1..L : cover[i] = 1
NoOverlap   == \A i \in 1..L : cover[i] <= 1
Terminates  == <>(pc = "done")
=============================================================================
