------------------------------ MODULE LogixView ------------------------------
(* What the user of LogixDriver is promised (C01, C02, C03, C04 at call level, C05, C13 for tag services):          *)
(* expected result of read(), expected memory after write(), expected tag list / type definitions after upload.      *)
(* Intent of one request: [scope, levels: <<[n, idx]>>, bit, count, hascount, base (request without {n}), value].    *)
EXTENDS LogixTarget

IntentSegsN(it, k) ==          \* segments of the first k levels; the last of them without its indices when dropidx
    (IF it.scope = <<>> THEN <<>> ELSE <<Sym(ProgPrefix \o it.scope)>>)
    \o FlattenSeq([i \in 1..k |-> <<Sym(it.levels[i].n)>> \o [j \in 1..Len(it.levels[i].idx) |-> Log("member", SmallToBig(it.levels[i].idx[j]))]])
IntentSegs(it) == IntentSegsN(it, Len(it.levels))
IntentSegsNoLastIdx(it) ==
    LET k == Len(it.levels) IN
    (IF it.scope = <<>> THEN <<>> ELSE <<Sym(ProgPrefix \o it.scope)>>)
    \o FlattenSeq([i \in 1..k |-> <<Sym(it.levels[i].n)>> \o (IF i = k THEN <<>> ELSE [j \in 1..Len(it.levels[i].idx) |-> Log("member", SmallToBig(it.levels[i].idx[j]))])])

IsIntCode(c) == c \in {194, 195, 196, 197, 198, 199, 200, 201}
MemBit(mem, off, j) == BitOf(mem[off + (j \div 8) + 1], j % 8)          \* bit j of the little-endian field starting at byte offset off

Exp(cls, val, typ, key, off, len) == [cls |-> cls, val |-> val, typ |-> typ, key |-> key, off |-> off, len |-> len]
Invalid == Exp("invalid", NoVal, <<>>, <<>>, 0, 0)
Unspec  == Exp("unspec", NoVal, <<>>, <<>>, 0, 0)

(* ---------------------------------------------- expected read ---------------------------------------------- *)
ExpectRead(lx, it) ==
    LET P == lx.P
        last == it.levels[Len(it.levels)]
        r0 == Resolve(P, IntentSegsNoLastIdx(it))
    IN
    IF ~r0.ok THEN Invalid
    ELSE IF r0.t.k = "atomic" /\ r0.t.code = 211 /\ r0.bit < 0 /\ Len(last.idx) <= 1 /\ it.bit < 0 THEN          \* BOOL array
        LET b == IF Len(last.idx) = 1 THEN last.idx[1] ELSE 0
            c == it.count
            mem == MemOf(lx, r0.key)
        IN IF c < 1 \/ b + c > 32 * r0.avail THEN Invalid
           ELSE IF c = 1 THEN Exp("valid", MkB(MemBit(mem, r0.off, b) = 1), BoolName, r0.key, r0.off, 4 * r0.avail)
           ELSE Exp("valid", MkL([j \in 1..c |-> MkB(MemBit(mem, r0.off, b + j - 1) = 1)]), WithCount(BoolName, c), r0.key, r0.off, 4 * r0.avail)
    ELSE LET r == Resolve(P, IntentSegs(it)) IN
    IF ~r.ok THEN Invalid
    ELSE IF it.count < 1 \/ it.count > r.avail THEN Invalid
    ELSE LET mem == MemOf(lx, r.key)  es == TSize(P, r.t) IN
    IF r.bit >= 0 THEN (IF it.bit >= 0 THEN Invalid ELSE Exp("valid", MkB(BitOf(mem[r.off + 1], r.bit) = 1), BoolName, r.key, r.off, 1))
    ELSE IF it.bit >= 0 THEN
        (IF r.t.k # "atomic" \/ ~IsIntCode(r.t.code) THEN Unspec
         ELSE IF it.bit >= 8 * es THEN Unspec
         ELSE Exp("valid", MkB(MemBit(mem, r.off, it.bit) = 1), BoolName, r.key, r.off, es))
    ELSE LET desc == TypeDesc(P, r.t)
             d == DecRep(desc, it.count, mem, r.off + 1, r.off + 1)
         IN IF d.st # "ok" THEN Unspec
            ELSE Exp("valid", IF it.count = 1 THEN d.val.l[1] ELSE d.val,
                     IF it.count = 1 THEN TypeName(P, r.t) ELSE WithCount(TypeName(P, r.t), it.count), r.key, r.off, es * it.count)

(* ---------------------------------------------- expected write ---------------------------------------------- *)
(* ExpectWrite(lx, mem0, it) = [cls, key, off, bytes, bitmode, bit, on]: the addressed slice and what it must hold  *)
WExp(cls, key, off, bytes, bit, on) == [cls |-> cls, key |-> key, off |-> off, bytes |-> bytes, bit |-> bit, on |-> on]
WInvalid == WExp("invalid", <<>>, 0, <<>>, -1, FALSE)
WUnspec  == WExp("unspec", <<>>, 0, <<>>, -1, FALSE)
Truthy(v) == IF IsB(v) THEN v.B = 1 ELSE IF IsI(v) THEN ~BigIsZero(v.i) ELSE FALSE
TruthDefined(v) == IsB(v) \/ IsI(v)

ExpectWrite(lx, it) ==
    LET P == lx.P
        last == it.levels[Len(it.levels)]
        r0 == Resolve(P, IntentSegsNoLastIdx(it))
        v == it.value
    IN
    IF ~r0.ok THEN WInvalid
    ELSE IF r0.t.k = "atomic" /\ r0.t.code = 211 /\ r0.bit < 0 /\ Len(last.idx) <= 1 /\ it.bit < 0 THEN          \* BOOL array
        LET b == IF Len(last.idx) = 1 THEN last.idx[1] ELSE 0
            c == it.count
        IN IF c < 1 \/ b + c > 32 * r0.avail THEN WInvalid
           ELSE IF Len(last.idx) = 0 /\ c = 1 THEN WUnspec            \* a BOOL array written without index or count: not documented
           ELSE IF c = 1 /\ ~IsL(v) THEN (IF TruthDefined(v) THEN WExp("valid", r0.key, r0.off + (b \div 8), <<>>, b % 8, Truthy(v)) ELSE WUnspec)
           ELSE IF c = 1 THEN WUnspec
           ELSE IF b % 32 # 0 THEN WInvalid                                                   \* misaligned BOOL-array write
           ELSE IF ~IsL(v) \/ Len(v.l) < c THEN WInvalid
           ELSE IF c % 32 # 0 THEN WUnspec
           ELSE IF \E j \in 1..c : ~IsB(v.l[j]) THEN WUnspec
           ELSE WExp("valid", r0.key, r0.off + 4 * (b \div 32), BytesOfFlags([j \in 1..c |-> v.l[j].B]), -1, FALSE)
    ELSE LET r == Resolve(P, IntentSegs(it)) IN
    IF ~r.ok THEN WInvalid
    ELSE IF it.count < 1 \/ it.count > r.avail THEN WInvalid
    ELSE LET es == TSize(P, r.t) IN
    IF r.bit >= 0 THEN (IF it.bit >= 0 \/ it.count # 1 THEN WInvalid ELSE IF TruthDefined(v) THEN WExp("valid", r.key, r.off, <<>>, r.bit, Truthy(v)) ELSE WUnspec)
    ELSE IF it.bit >= 0 THEN
        (IF r.t.k # "atomic" \/ ~IsIntCode(r.t.code) THEN WUnspec
         ELSE IF it.bit >= 8 * es THEN WUnspec
         ELSE IF ~TruthDefined(v) THEN WUnspec
         ELSE WExp("valid", r.key, r.off + (it.bit \div 8), <<>>, it.bit % 8, Truthy(v)))
    ELSE LET desc0 == TypeDesc(P, r.t)
             desc == IF desc0.k = "fixedstr" THEN desc0 ELSE desc0
             cut(x) == IF desc0.k = "fixedstr" /\ IsS(x) /\ Len(x.s) > desc0.capn THEN MkS(SubSeq(x.s, 1, desc0.capn)) ELSE x
             e == IF it.count = 1
                  THEN (IF IsL(v) /\ desc0.k \notin {"bits"} THEN UnspecR          \* a list for a single element: accepted for array tags only, not documented
                        ELSE EncR(desc, cut(v)))
                  ELSE IF ~IsL(v) THEN OutR
                  ELSE IF Len(v.l) < it.count THEN OutR
                  ELSE Combine([j \in 1..it.count |-> EncR(desc, cut(v.l[j]))])
         IN IF e.st = "out" THEN WInvalid
            ELSE IF e.st = "unspec" THEN WUnspec
            ELSE WExp("valid", r.key, r.off, e.bytes, -1, FALSE)

ApplyW(lx, w) == IF w.bit >= 0 THEN SetMem(lx, w.key, SetBit(MemOf(lx, w.key), w.off, w.bit, w.on))
                 ELSE SetMem(lx, w.key, Patch(MemOf(lx, w.key), w.off, w.bytes))

(* --------------------------------------------- status texts (C13) --------------------------------------------- *)
TextOf(lx, st) == LET hits == {i \in 1..Len(lx.texts) : lx.texts[i][1] = st} IN
                  IF hits = {} THEN <<>> ELSE lx.texts[CHOOSE i \in hits : TRUE][2]
NamesStatus(lx, err, st) ==
    /\ IsS(err) /\ Len(err.s) > 0
    /\ \/ (TextOf(lx, st) # <<>> /\ ContainsSeq(err.s, TextOf(lx, st)))
       \/ ContainsSeq(Lower(err.s), Hex2(st))

(* failed services logged for the slice of request i (same tag and offset) *)
SvcFor(lx, key, off) == IF Len(lx.svclog) = 0 THEN <<>> ELSE SelectSeq(lx.svclog, LAMBDA e : e.key = key /\ e.off = off)

(* ------------------------------------------------ obligations ------------------------------------------------ *)
RetR(fail, lx) == [fail |-> fail, lx |-> lx]
Plus(a, b) == IF a = "" THEN b ELSE IF b = "" THEN a ELSE a \o "+" \o b

\* judge request i of a read call; returns clause ("" = ok)
JudgeRead2(lx, it, tg, anyInvalid, connsize, alone, alone0) ==       \* alone0: the call has this request only
    LET e == ExpectRead(lx, it)
        big == e.len + 64 >= connsize
        fsv == IF e.cls = "valid" THEN SvcFor(lx, e.key, e.off) ELSE <<>>
        \* an injected error on any service of this request fails the request; when several requests of the call address
        \* the same slice the attribution is ambiguous and nothing is demanded
        allFailed == Len(fsv) > 0 /\ (alone \/ <<e.key, e.off>> \notin lx.okslices)
        someFailed == Len(fsv) > 0
    IN
    IF e.cls = "unspec" THEN ""
    ELSE IF e.cls = "invalid" THEN
        (IF tg.truthy = 1 THEN "C03:invalid-truthy"
         ELSE IF ~IsS(tg.error) \/ Len(tg.error.s) = 0 THEN "C03:empty-error" ELSE "")
    ELSE IF allFailed THEN
        (IF tg.truthy = 1 THEN "C13:success-on-error+C03:refused-truthy+C01:refused-truthy"     \* the controller refused (part of) this request
         ELSE IF ~IsS(tg.error) \/ Len(tg.error.s) = 0 THEN "C13:empty-error+C03:empty-error"
         ELSE IF ~NamesStatus(lx, tg.error, fsv[Len(fsv)].status) THEN "C13:status-not-named" ELSE "")
    ELSE IF someFailed THEN ""
    ELSE IF tg.truthy = 0 THEN Plus(Plus("C01:falsy-for-existing", IF anyInvalid THEN "C03:isolation" ELSE IF ~alone0 THEN "C03:valid-failed-in-company" ELSE ""), Plus(IF big THEN "C04:readable" ELSE "", "C13:failure-on-success"))
    ELSE IF ~TermEq(tg.value, e.val) THEN Plus("C01:value", IF anyInvalid THEN "C03:isolation" ELSE "")
    ELSE IF tg.type # MkS(e.typ) THEN "C01:type"
    ELSE IF tg.tag # MkS(it.base) THEN Plus("C01:name", "C03:name")
    ELSE ""

JudgeRead(lx, it, tg, anyInvalid, connsize, alone) == JudgeRead2(lx, it, tg, anyInvalid, connsize, alone, TRUE)

FirstBad(cs) == LET bad == {i \in 1..Len(cs) : cs[i] # ""} IN IF bad = {} THEN "" ELSE cs[Min(bad)]

ReadRet(lx, call, ev, connsize) ==
    LET items == call.intent.items  n == Len(items)  tgs == ev.result.tags IN
    IF ev.outcome # "value" THEN (IF ev.faulted = 1 THEN RetR("", lx) ELSE RetR("C03:exception", lx))
    ELSE IF n = 1 /\ ev.result.single # 1 THEN RetR("C03:shape", lx)
    ELSE IF n > 1 /\ ev.result.single # 0 THEN RetR("C03:shape", lx)
    ELSE IF Len(tgs) # n THEN RetR("C03:count", lx)
    ELSE IF ev.faulted = 1 THEN RetR("", lx)
    ELSE LET anyInv == n <= 400 /\ \E i \in 1..n : ExpectRead(lx, items[i]).cls = "invalid"
             exps == IF Len(lx.svclog) = 0 THEN <<>> ELSE [i \in 1..n |-> ExpectRead(lx, items[i])]
             alone(i) == Len(lx.svclog) = 0 \/ Cardinality({j \in 1..n : exps[j].key = exps[i].key}) = 1
             cs == [i \in 1..n |-> JudgeRead2(lx, items[i], tgs[i], anyInv, connsize, alone(i), n = 1)]
         IN RetR(FirstBad(cs), lx)

\* expected memory: the pre-call image patched, in request order, by the effects of the requests reported truthy
RECURSIVE ApplyTruthy(_, _, _, _)
ApplyTruthy(lx, items, tgs, i) ==
    IF i > Len(items) THEN lx
    ELSE LET w == ExpectWrite(lx, items[i]) IN
         ApplyTruthy(IF tgs[i].truthy = 1 /\ w.cls = "valid" THEN ApplyW(lx, w) ELSE lx, items, tgs, i + 1)

JudgeWrite(lx, it, tg, anyInvalid, connsize, alone, alone0) ==
    LET w == ExpectWrite(lx, it)
        failedHere == {k \in 1..Len(lx.svclog) : lx.svclog[k].key = w.key}
        okHere == {sl \in lx.okslices : sl[1] = w.key}
    IN
    IF w.cls = "unspec" THEN ""
    ELSE IF w.cls = "invalid" THEN
        (IF tg.truthy = 1 THEN "C03:invalid-truthy"
         ELSE IF ~IsS(tg.error) \/ Len(tg.error.s) = 0 THEN "C03:empty-error" ELSE "")
    ELSE IF failedHere # {} /\ (alone \/ okHere = {}) THEN
        (IF tg.truthy = 1 THEN "C13:success-on-error+C03:refused-truthy+C02:reported-but-refused"
         ELSE IF ~IsS(tg.error) \/ Len(tg.error.s) = 0 THEN "C13:empty-error+C03:empty-error"
         ELSE IF ~NamesStatus(lx, tg.error, lx.svclog[Max(failedHere)].status) THEN "C13:status-not-named" ELSE "")
    ELSE IF failedHere # {} THEN ""
    ELSE IF tg.truthy = 0 THEN Plus(Plus("C02:valid-write-failed", IF anyInvalid THEN "C03:isolation" ELSE IF ~alone0 THEN "C03:valid-failed-in-company" ELSE ""), IF Len(w.bytes) + 64 >= connsize THEN "C04:writable" ELSE "")
    ELSE IF okHere = {} THEN "C02:not-applied"
    ELSE IF tg.tag # MkS(it.base) THEN "C03:name"
    ELSE ""

\* exactly-once: the write services executed for a non-bit request tile its slice as often as it was requested
OnceOk(lx, items, tgs) ==
    \A i \in 1..Len(items) :
        LET w == ExpectWrite(lx, items[i]) IN
        (w.cls = "valid" /\ w.bit < 0 /\ tgs[i].truthy = 1 /\ Len(w.bytes) > 0) =>
            LET same == {j \in 1..Len(items) : LET w2 == ExpectWrite(lx, items[j]) IN
                             w2.cls = "valid" /\ tgs[j].truthy = 1 /\ w2.key = w.key /\ w2.bit < 0
                             /\ w2.off < w.off + Len(w.bytes) /\ w.off < w2.off + Len(w2.bytes)}
                 exact == \A j \in same : LET w2 == ExpectWrite(lx, items[j]) IN w2.off = w.off /\ Len(w2.bytes) = Len(w.bytes)
                 inside == SelectSeq(lx.ledger, LAMBDA e : e.key = w.key /\ e.bit = -1 /\ e.off >= w.off /\ e.off + e.len <= w.off + Len(w.bytes))
                 total == FoldLeft(LAMBDA a, e : a + e.len, 0, inside)
            IN exact => total = Len(w.bytes) * Cardinality(same)

WriteRet(lx, call, ev, connsize) ==
    LET items == call.intent.items  n == Len(items)  tgs == ev.result.tags IN
    IF ev.outcome # "value" THEN (IF ev.faulted = 1 THEN RetR("", lx) ELSE RetR("C03:exception", lx))
    ELSE IF n = 1 /\ ev.result.single # 1 THEN RetR("C03:shape", lx)
    ELSE IF n > 1 /\ ev.result.single # 0 THEN RetR("C03:shape", lx)
    ELSE IF Len(tgs) # n THEN RetR("C03:count", lx)
    ELSE IF ev.faulted = 1 THEN RetR("", lx)
    ELSE LET pre == [lx EXCEPT !.mem = lx.pre]
             anyInv == \E i \in 1..n : ExpectWrite(pre, items[i]).cls = "invalid"
             keys == [i \in 1..n |-> ExpectWrite(pre, items[i]).key]
             cs == [i \in 1..n |-> JudgeWrite(pre, items[i], tgs[i], anyInv, connsize, Cardinality({j \in 1..n : keys[j] = keys[i]}) = 1, n = 1)]
             c1 == FirstBad(cs)
             anyUnspec == \E i \in 1..n : ExpectWrite(pre, items[i]).cls = "unspec"
             expected == ApplyTruthy(pre, items, tgs, 1)
         IN IF c1 # "" THEN RetR(c1, lx)
            ELSE IF anyUnspec \/ Len(lx.svclog) > 0 \/ lx.unspecInj THEN RetR("", lx)        \* what a refused (part of a) write leaves in memory is not specified
            ELSE IF \E x \in 1..Len(lx.xfer) : lx.xfer[x].svc = 83 /\ lx.xfer[x].next >= 0 THEN RetR("C04:write-tiling", lx)
            ELSE IF expected.mem # lx.mem THEN
                 (IF \E k \in 1..Len(lx.mem) : expected.mem[k].b # lx.mem[k].b
                        /\ \A i \in 1..n : ExpectWrite(pre, items[i]).key # lx.mem[k].key THEN RetR("C02:outside", lx) ELSE RetR("C02:effect", lx))
            ELSE IF ~OnceOk(pre, items, tgs) THEN RetR("C02:once", lx)
            ELSE RetR("", lx)

(* ------------------------------------------ upload (C05) ------------------------------------------ *)
StructName == <<115, 116, 114, 117, 99, 116>>
ColonIn(n) == \E i \in 1..Len(n) : n[i] = 58
UserVisible(s) == s.kind = "tag" /\ s.sysflag = 0
ScopedName(s) == IF s.scope = <<>> THEN s.name ELSE ProgPrefix \o s.scope \o <<46>> \o s.name
\* External Access attribute of the Symbol object (Logix 5000 Data Access): 0 Read/Write, 2 Read Only, 3 None (1 reserved: not
\* compared).  Stated here, not taken from the library's table.
AccessText(lx, code) == CASE code = 0 -> <<82, 101, 97, 100, 47, 87, 114, 105, 116, 101>> [] code = 2 -> <<82, 101, 97, 100, 32, 79, 110, 108, 121>> [] code = 3 -> <<78, 111, 110, 101>> [] OTHER -> <<>>
ExpTag(lx, s) ==
    [name |-> ScopedName(s), dim |-> Len(Dims(s.dims)), dims |-> s.dims, alias |-> IF BitOf(s.sc[4], 2) = 1 THEN 0 ELSE 1,
     iid |-> s.iid, dtname |-> TypeName(lx.P, s.t), ttype |-> IF s.t.k = "atomic" THEN "atomic" ELSE "struct",
     tid |-> IF s.t.k = "struct" THEN s.t.tid ELSE -1]
GotTag(g) == [name |-> g.name, dim |-> g.dim, dims |-> g.dims, alias |-> g.alias, iid |-> g.iid, dtname |-> g.dtname, ttype |-> g.ttype, tid |-> g.tid]
ExpectedSyms(lx, allprogs) == SelectSeq(lx.P.symbols, LAMBDA s : UserVisible(s) /\ (s.scope = <<>> \/ allprogs))

\* templates reachable from the visible tags (these are the ones the driver has to upload)
RECURSIVE Reach(_, _, _)
Reach(P, todo, seen) ==
    IF todo = {} THEN seen
    ELSE LET tid == CHOOSE x \in todo : TRUE
             tp == Tpl(P, tid)
             kids == {tp.members[i].t.tid : i \in {j \in 1..Len(tp.members) : tp.members[j].t.k = "struct"}}
         IN Reach(P, (todo \cup kids) \ (seen \cup {tid}), seen \cup {tid})
ExpMember(P, mb) == [name |-> mb.name, off |-> mb.off, ttype |-> IF mb.t.k = "atomic" THEN "atomic" ELSE "struct", dtname |-> TypeName(P, mb.t),
                     bit |-> mb.bit, arr |-> IF mb.bit >= 0 THEN 0 ELSE mb.arr]
GotMember(g) == [name |-> g.name, off |-> g.off, ttype |-> g.ttype, dtname |-> g.dtname, bit |-> g.bit, arr |-> g.arr]
DtClause(P, tp, g) ==
    LET vis == SelectSeq(tp.members, LAMBDA mb : ~IsPrivate(mb.name)) IN
    IF g.attrs # [i \in 1..Len(vis) |-> vis[i].name] THEN "C05:struct:attributes"
    ELSE IF {GotMember(g.internal[i]) : i \in 1..Len(g.internal)} # {ExpMember(P, tp.members[i]) : i \in 1..Len(tp.members)} THEN "C05:struct:members"
    ELSE IF g.string # (IF IsStringTpl(tp) THEN StringCap(tp) ELSE -1) THEN "C05:string"
    ELSE IF g.size # tp.size \/ g.count # Len(tp.members) \/ g.handle # tp.handle \/ g.defsize # DefSize(tp) THEN "C05:struct:template"
    ELSE IF g.wire # tp.size THEN "C05:struct:wire-size"                   \* the codec built for the type takes exactly the structure's bytes
    ELSE ""

\* named = <<>>: controller scope (plus every program when allprogs); otherwise get_tag_list(program = named): the tags of
\* that program only (what the program / task tables hold afterwards is not specified)
UploadClauseSel(lx, view, allprogs, named, fw) ==
    LET P == lx.P
        exp == IF named = <<>> THEN ExpectedSyms(lx, allprogs) ELSE SelectSeq(P.symbols, LAMBDA s : UserVisible(s) /\ s.scope = named)
        expNames == {ScopedName(exp[i]) : i \in 1..Len(exp)}
        gotNames == {view.tags[i].name : i \in 1..Len(view.tags)}
        expRecs == {ExpTag(lx, exp[i]) : i \in 1..Len(exp)}
        gotRecs == {GotTag(view.tags[i]) : i \in 1..Len(view.tags)}
        reach == Reach(P, {exp[i].t.tid : i \in {j \in 1..Len(exp) : exp[j].t.k = "struct"}}, {})
        expDt == {Tpl(P, tid).name : tid \in reach}
        gotDt == {view.dts[i].name : i \in 1..Len(view.dts)}
        progs == SelectSeq(P.symbols, LAMBDA s : s.kind = "program")
        expProgs == {[name |-> SubSeq(progs[i].name, 9, Len(progs[i].name)),
                      routines |-> LET rs == SelectSeq(P.symbols, LAMBDA s : s.kind = "routine" /\ s.scope = SubSeq(progs[i].name, 9, Len(progs[i].name)))
                                   IN IF allprogs THEN [j \in 1..Len(rs) |-> SubSeq(rs[j].name, 9, Len(rs[j].name))] ELSE <<>>] : i \in 1..Len(progs)}
        gotProgs == {[name |-> view.programs[i].name, routines |-> view.programs[i].routines] : i \in 1..Len(view.programs)}
        tasks == SelectSeq(P.symbols, LAMBDA s : s.kind = "task")
        dtc == [i \in 1..Len(view.dts) |-> LET hit == {tid \in reach : Tpl(P, tid).name = view.dts[i].name} IN
                                            IF hit = {} THEN "" ELSE DtClause(P, Tpl(P, CHOOSE tid \in hit : TRUE), view.dts[i])]
    IN IF Len(view.tags) # Cardinality(gotNames) THEN "C05:duplicate"
       ELSE IF expNames \ gotNames # {} THEN "C05:missing"
       ELSE IF gotNames \ expNames # {} THEN "C05:extra"
       ELSE IF expRecs # gotRecs THEN "C05:field"
       ELSE IF fw >= 18 /\ \E i \in 1..Len(view.tags) : \E j \in 1..Len(exp) :
                   ScopedName(exp[j]) = view.tags[i].name /\ AccessText(lx, exp[j].access) # <<>> /\ view.tags[i].access # AccessText(lx, exp[j].access) THEN "C05:field:external_access"
       ELSE IF expDt \ gotDt # {} THEN "C05:struct:missing"
       ELSE IF \E i \in 1..Len(dtc) : dtc[i] # "" THEN dtc[CHOOSE i \in 1..Len(dtc) : dtc[i] # ""]
       ELSE IF named = <<>> /\ expProgs # gotProgs THEN "C05:programs"
       ELSE IF named = <<>> /\ {SubSeq(tasks[i].name, 6, Len(tasks[i].name)) : i \in 1..Len(tasks)} # {view.tasks[i] : i \in 1..Len(view.tasks)} THEN "C05:tasks"
       ELSE IF view.json # 1 THEN "C05:json"
       ELSE ""

UploadClause(lx, view, allprogs, fw) == UploadClauseSel(lx, view, allprogs, <<>>, fw)

LxRet(lx, call, ev) ==
    IF ~lx.on THEN RetR("", lx)
    ELSE IF call.api = "read" THEN ReadRet(lx, call, ev, ev.size)
    ELSE IF call.api = "write" THEN WriteRet(lx, call, ev, ev.size)
    ELSE IF call.api \in {"open", "enter", "get_tag_list"} /\ "view" \in DOMAIN ev /\ ev.outcome = "value" /\ ev.faulted = 0
         THEN RetR(UploadClauseSel(lx, ev.view, IF call.api = "get_tag_list" THEN call.intent.allprogs = 1 ELSE lx.allprogs,
                                   IF call.api = "get_tag_list" /\ "named" \in DOMAIN call.intent THEN call.intent.named ELSE <<>>, lx.fw), lx)
    ELSE IF call.api = "get_tag_list" /\ ev.outcome # "value" /\ ev.faulted = 0 /\ ~lx.upl.refused THEN RetR("C05:upload-failed", lx)
    ELSE RetR("", lx)
==============================================================================
