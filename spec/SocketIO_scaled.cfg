SPECIFICATION Spec
CONSTANTS H = 6  LenAt = 4  RS = 4  MaxBody = 9  MaxMsg = 9  MaxCalls = 2  GenChunks = {}  MaxParts = 0  Gen = FALSE
INVARIANT ExactFrame
INVARIANT NoPartialReturn
INVARIANT FailsWithCommError
INVARIANT NoForeign
INVARIANT SendInOrder
INVARIANT SendComplete
PROPERTY Terminates
PROPERTY Monotone
PROPERTY FreshCall
CHECK_DEADLOCK FALSE
