------------------------------ MODULE Ieee754 ------------------------------
(* IEEE-754 binary32 / binary64 on bit sequences.  A finite float is the term <<s, e, b1, ..., bn>> meaning  *)
(* (-1)^s * M * 2^e with M the ODD integer whose bits (most significant first) are b1..bn; zero is <<s, 0>>.   *)
(* As value terms: [f |-> tuple], specials [F |-> "nan" | "pinf" | "ninf"].  Round-half-even, subnormals, overflow = out of domain.    *)
EXTENDS Bytes

FBits(f) == Drop(f, 2)
FSign(f) == f[1]
FExp(f)  == f[2]
IsFiniteTerm(f) == Len(f) >= 2 /\ f[1] \in {0, 1}

NatBits(n, w) == [i \in 1..w |-> (n \div (2 ^ (w - i))) % 2]          \* w <= 11
AnyOne(s) == \E i \in 1..Len(s) : s[i] = 1
\* add one to a bit string MSB first; may grow by one bit
IncBits(b) ==
    LET n == Len(b)
        zs == {i \in 1..n : b[i] = 0}
    IN  IF zs = {} THEN <<1>> \o Zeros(n)
        ELSE LET k == Max(zs) IN [i \in 1..n |-> IF i < k THEN b[i] ELSE IF i = k THEN 1 ELSE 0]
BitsVal(b) == FoldLeft(LAMBDA acc, x : 2 * acc + x, 0, b)           \* only for short bit strings (exponents)

(* p = precision incl. hidden bit, w = exponent width.  Result [ok, bits] with bits = sign, exponent, fraction *)
EncodeBin(f, p, w, bias) ==
  IF FBits(f) = <<>> THEN [ok |-> TRUE, bits |-> <<FSign(f)>> \o Zeros(w + p - 1)]
  ELSE
  LET m    == FBits(f)
      n    == Len(m)
      E    == FExp(f) + n - 1                       \* value = 1.xxx * 2^E
      emin == 1 - bias
      keep == IF E >= emin THEN p ELSE p - (emin - E)          \* mantissa bits that survive
      kept == IF keep <= 0 THEN <<>> ELSE IF n >= keep THEN SubSeq(m, 1, keep) ELSE m \o Zeros(keep - n)
      rest == IF keep <= 0 THEN (IF keep = 0 THEN m ELSE Zeros(-keep) \o m)
              ELSE IF n > keep THEN SubSeq(m, keep + 1, n) ELSE <<>>
      half  == rest # <<>> /\ rest[1] = 1
      above == half /\ Len(rest) > 1 /\ AnyOne(SubSeq(rest, 2, Len(rest)))
      odd   == kept # <<>> /\ kept[Len(kept)] = 1
      up    == half /\ (above \/ odd)                          \* round half to even
      k0    == IF kept = <<>> THEN <<0>> ELSE kept
      k1    == IF up THEN IncBits(k0) ELSE k0                  \* may carry into a new top bit
      grew  == Len(k1) > Len(k0)
  IN IF E >= emin
     THEN LET E2 == IF grew THEN E + 1 ELSE E
          IN IF E2 > bias THEN [ok |-> FALSE, bits |-> <<>>]   \* overflow: out of the type's domain
             ELSE [ok |-> TRUE, bits |-> <<FSign(f)>> \o NatBits(E2 + bias, w) \o SubSeq(k1, 2, p)]
     ELSE LET L == Len(k1)                                     \* subnormal, or rounded up to min normal
          IN IF L = p /\ k1[1] = 1
             THEN [ok |-> TRUE, bits |-> <<FSign(f)>> \o NatBits(1, w) \o SubSeq(k1, 2, p)]
             ELSE [ok |-> TRUE, bits |-> <<FSign(f)>> \o Zeros(w) \o Zeros(p - 1 - L) \o k1]

SpecialBits(x, p, w) ==
    CASE x = "pinf" -> <<0>> \o [i \in 1..w |-> 1] \o Zeros(p - 1)
      [] x = "ninf" -> <<1>> \o [i \in 1..w |-> 1] \o Zeros(p - 1)
      [] x = "nan"  -> <<0>> \o [i \in 1..w |-> 1] \o <<1>> \o Zeros(p - 2)

\* strip leading zeros, then trailing zeros (each trailing zero moves the exponent up)
NormBits(s, bits, e) ==
    LET ones == {i \in 1..Len(bits) : bits[i] = 1} IN
    IF ones = {} THEN <<s, 0>>
    ELSE LET lo == Min(ones)  hi == Max(ones)
         IN <<s, e + (Len(bits) - hi)>> \o SubSeq(bits, lo, hi)

\* bits = sign, w exponent bits, p-1 fraction bits -> float term or special
DecodeBin(bits, p, w, bias) ==
    LET s    == bits[1]
        ex   == BitsVal(SubSeq(bits, 2, w + 1))
        frac == SubSeq(bits, w + 2, w + p)
    IN  IF ex = 2 ^ w - 1 THEN [F |-> IF AnyOne(frac) THEN "nan" ELSE IF s = 0 THEN "pinf" ELSE "ninf"]
        ELSE IF ex = 0 THEN [f |-> NormBits(s, frac, (1 - bias) - (p - 1))]
        ELSE [f |-> NormBits(s, <<1>> \o frac, ex - bias - (p - 1))]

\* float value term ([f |-> tuple] or [F |-> special])  ->  [ok, bytes] little-endian
F32Enc(v) == IF "F" \in DOMAIN v THEN [ok |-> TRUE, bytes |-> BytesOfBitsMSB(SpecialBits(v.F, 24, 8))]
             ELSE LET r == EncodeBin(v.f, 24, 8, 127) IN [ok |-> r.ok, bytes |-> IF r.ok THEN BytesOfBitsMSB(r.bits) ELSE <<>>]
F64Enc(v) == IF "F" \in DOMAIN v THEN [ok |-> TRUE, bytes |-> BytesOfBitsMSB(SpecialBits(v.F, 53, 11))]
             ELSE LET r == EncodeBin(v.f, 53, 11, 1023) IN [ok |-> r.ok, bytes |-> IF r.ok THEN BytesOfBitsMSB(r.bits) ELSE <<>>]
F32Dec(bytes) == DecodeBin(BitsMSB(bytes), 24, 8, 127)
F64Dec(bytes) == DecodeBin(BitsMSB(bytes), 53, 11, 1023)
=============================================================================
