---------------------------- MODULE ConnPathModel ----------------------------
(* R1 for C15: every spelling (separator mix, port alias) of a route with 0-2 hops has one meaning, and the   *)
(* canonical route bytes of that meaning parse back; single-token corruptions leave the grammar or reject.    *)
EXTENDS ConnPath

Host == <<49, 46, 50, 46, 51, 46, 52>>                                  \* 1.2.3.4
Seps == {47, 92, 44}
BpNames   == {<<98, 112>>, <<98, 97, 99, 107, 112, 108, 97, 110, 101>>, <<49>>}
EnetNames == {<<101, 110, 101, 116>>, <<50>>, <<99, 110, 101, 116>>, <<100, 110, 101, 116>>}
LinkToks  == {<<48>>, <<49>>, <<50, 53, 53>>, <<49, 48, 46, 48, 46, 48, 46, 57>>}
CONSTANT Small
HopToks   == IF Small THEN {<<p, l>> : p \in {<<98, 112>>, <<98, 97, 99, 107, 112, 108, 97, 110, 101>>, <<49>>, <<101, 110, 101, 116>>},
                                         l \in {<<50, 53, 53>>, <<49, 48, 46, 48, 46, 48, 46, 57>>}}
             ELSE {<<p, l>> : p \in BpNames \cup EnetNames, l \in LinkToks}
PortIdOf(p) == IF p \in BpNames THEN 1 ELSE 2
LinkOf(l)   == IF IsDigits(l) THEN <<DecVal(l)>> ELSE l

VARIABLES hops, seps, withport
Init == /\ hops \in UNION {[1..n -> HopToks] : n \in 0..2}
        /\ seps \in [1..4 -> Seps]
        /\ withport \in BOOLEAN
Next == UNCHANGED <<hops, seps, withport>>
Spec == Init /\ [][Next]_<<hops, seps, withport>>

Text == Host \o (IF withport THEN <<58, 52, 52, 56, 49, 56>> ELSE <<>>)
        \o FlattenSeq([i \in 1..Len(hops) |-> <<seps[2 * i - 1]>> \o hops[i][1] \o <<seps[2 * i]>> \o hops[i][2]])
Meaning == [i \in 1..Len(hops) |-> Port(PortIdOf(hops[i][1]), LinkOf(hops[i][2]))]

SpellingIndependent ==
    LET m == Interp(Text, FALSE) IN
    /\ m.cls = "ok" /\ m.host = Host /\ m.port = (IF withport THEN 44818 ELSE 0)
    /\ SegsEq(m.route, Meaning)
    /\ LET r == ParseSized(Sized(Canon(m.route), FALSE), FALSE) IN r.ok /\ SegsEq(r.segs, Meaning)
\* dropping the last link token leaves an odd number of route tokens: rejected (or the auto-slot shortcut)
OddRejected == Len(hops) >= 1 =>
    LET cut == SubSeq(Text, 1, Len(Text) - Len(hops[Len(hops)][2]) - 1) IN
    Interp(cut, FALSE).cls = "reject" /\ (Len(hops) = 1 => Interp(cut, TRUE).cls \in {"ok", "reject"})
\* an unknown port name or an out-of-range link is rejected
BadTokensRejected == Len(hops) >= 1 =>
    /\ Interp(Text \o <<47, 120, 121, 122, 47, 49>>, FALSE).cls = "reject"
    /\ Interp(Text \o <<47, 98, 112, 47, 50, 53, 54>>, FALSE).cls = "reject"
    /\ Interp(Host \o <<58, 48>> \o SubSeq(Text, Len(Host) + 1 + (IF withport THEN 6 ELSE 0), Len(Text)), FALSE).cls = "reject"
AutoSlot == /\ SegsEq(Interp(Host, TRUE).route, <<Port(1, <<0>>)>>)
            /\ SegsEq(Interp(Host \o <<47, 51>>, TRUE).route, <<Port(1, <<3>>)>>)
            /\ Interp(Host, FALSE).route = <<>>
==============================================================================
