------------------------------ MODULE ConnPath ------------------------------
(* Property C15: the documented connection-path grammar as an interpreter over code-point sequences.       *)
(*   path   ::= host [":" tcpport] { sep port sep link }        sep ::= "/" | "\" | ","                     *)
(*   port   ::= backplane | bp | enet | dhrio-a | dhrio-b | dnet | cnet | dh485-a | dh485-b | 1..14          *)
(*   link   ::= 0..255 | IPv4 dotted quad                                                                    *)
(* plus the driver shortcuts (auto slot): "host" = host/bp/0 and "host/slot" = host/bp/slot.                 *)
(* Interp(s, auto) = [cls, host, port, route] with cls "ok" (in the grammar), "reject" (in the stated         *)
(* rejection set: odd number of route tokens, unknown port name, link out of range and not IPv4, invalid      *)
(* TCP port) or "unspec" (neither: empty tokens, white space, upper case, IPv6, numeric ports 0 / >= 15).    *)
EXTENDS EPath, CipTypes

SplitOn(s, seps) ==
    LET sp == SetToSortSeq({i \in 1..Len(s) : s[i] \in seps}, LAMBDA x, y : x < y)
        n  == Len(sp)
    IN [j \in 1..(n + 1) |-> SubSeq(s, (IF j = 1 THEN 1 ELSE sp[j - 1] + 1), (IF j <= n THEN sp[j] - 1 ELSE Len(s)))]
IsDigits(tok) == Len(tok) > 0 /\ \A i \in 1..Len(tok) : tok[i] >= 48 /\ tok[i] <= 57
DecVal(tok)   == IF Len(tok) > 9 THEN 2147483647 ELSE DigitsVal(tok)
HasUpper(tok) == \E i \in 1..Len(tok) : tok[i] >= 65 /\ tok[i] <= 90
Lower(tok)    == [i \in 1..Len(tok) |-> IF tok[i] >= 65 /\ tok[i] <= 90 THEN tok[i] + 32 ELSE tok[i]]

PortNum(tok) ==          \* documented port names -> port identifier
    CASE tok = <<98, 97, 99, 107, 112, 108, 97, 110, 101>> -> 1      \* backplane
      [] tok = <<98, 112>> -> 1                                      \* bp
      [] tok = <<101, 110, 101, 116>> -> 2                           \* enet
      [] tok = <<100, 104, 114, 105, 111, 45, 97>> -> 2              \* dhrio-a
      [] tok = <<100, 104, 114, 105, 111, 45, 98>> -> 3              \* dhrio-b
      [] tok = <<100, 110, 101, 116>> -> 2                           \* dnet
      [] tok = <<99, 110, 101, 116>> -> 2                            \* cnet
      [] tok = <<100, 104, 52, 56, 53, 45, 97>> -> 2                 \* dh485-a
      [] tok = <<100, 104, 52, 56, 53, 45, 98>> -> 3                 \* dh485-b
      [] OTHER -> 0

\* [cls, v]
PortTok(tok) ==
    IF Len(tok) = 0 THEN [cls |-> "unspec", v |-> 0]
    ELSE IF IsDigits(tok) THEN (IF DecVal(tok) >= 1 /\ DecVal(tok) <= 14 THEN [cls |-> "ok", v |-> DecVal(tok)] ELSE [cls |-> "unspec", v |-> 0])
    ELSE IF PortNum(tok) # 0 THEN [cls |-> "ok", v |-> PortNum(tok)]
    ELSE IF PortNum(Lower(tok)) # 0 THEN [cls |-> "unspec", v |-> 0]
    ELSE [cls |-> "reject", v |-> 0]
\* [cls, link bytes]
LinkTok(tok) ==
    IF Len(tok) = 0 THEN [cls |-> "unspec", link |-> <<>>]
    ELSE IF IsDigits(tok) THEN (IF DecVal(tok) <= 255 THEN [cls |-> "ok", link |-> <<DecVal(tok)>>] ELSE [cls |-> "reject", link |-> <<>>])
    ELSE IF \E i \in 1..Len(tok) : tok[i] = 58 \/ tok[i] <= 32 \/ tok[i] > 126 THEN [cls |-> "unspec", link |-> <<>>]
    ELSE IF ParseQuad(tok).ok THEN [cls |-> "ok", link |-> tok]
    ELSE [cls |-> "reject", link |-> <<>>]

Worst(cs) == IF \E i \in 1..Len(cs) : cs[i] = "unspec" THEN "unspec"
             ELSE IF \E i \in 1..Len(cs) : cs[i] = "reject" THEN "reject" ELSE "ok"

Interp(s, auto) ==
    LET s1   == [i \in 1..Len(s) |-> IF s[i] = 92 \/ s[i] = 44 THEN 47 ELSE s[i]]
        toks == SplitOn(s1, {47})
        hp   == SplitOn(toks[1], {58})
        host == hp[1]
        route == SubSeq(toks, 2, Len(toks))
        n    == Len(route)
        portcls == IF Len(hp) = 1 THEN "ok"
                   ELSE IF Len(hp) > 2 THEN "reject"                      \* what follows the first colon is not a TCP port number
                   ELSE IF IsDigits(hp[2]) /\ DecVal(hp[2]) >= 1 /\ DecVal(hp[2]) <= 65534 THEN "ok" ELSE "reject"
        port == IF Len(hp) = 2 /\ portcls = "ok" THEN DecVal(hp[2]) ELSE 0
        hostcls == IF Len(host) = 0 \/ (\E i \in 1..Len(s) : s[i] <= 32 \/ s[i] > 126) THEN "unspec" ELSE "ok"
        none == [cls |-> "ok", segs |-> <<>>]
        rt == IF n = 0 THEN [cls |-> "ok", segs |-> IF auto THEN <<Port(1, <<0>>)>> ELSE <<>>]
              ELSE IF n = 1 /\ auto THEN [cls |-> LinkTok(route[1]).cls, segs |-> <<Port(1, LinkTok(route[1]).link)>>]
              ELSE IF n % 2 = 1 THEN [cls |-> IF \E i \in 1..n : Len(route[i]) = 0 THEN "unspec" ELSE "reject", segs |-> <<>>]
              ELSE LET k == n \div 2
                       ps == [i \in 1..k |-> PortTok(route[2 * i - 1])]
                       ls == [i \in 1..k |-> LinkTok(route[2 * i])]
                   IN [cls |-> Worst([i \in 1..n |-> IF i <= k THEN ps[i].cls ELSE ls[i - k].cls]),
                       segs |-> [i \in 1..k |-> Port(ps[i].v, ls[i].link)]]
        cls == IF hostcls = "unspec" \/ portcls = "unspec" \/ rt.cls = "unspec" THEN "unspec"
               ELSE IF portcls = "reject" \/ rt.cls = "reject" THEN "reject" ELSE "ok"
    IN [cls |-> cls, host |-> host, port |-> port, route |-> rt.segs]
=============================================================================
