SPECIFICATION Spec
CONSTANT Small = FALSE
INVARIANT SpellingIndependent
INVARIANT OddRejected
INVARIANT BadTokensRejected
INVARIANT AutoSlot
CHECK_DEADLOCK FALSE
