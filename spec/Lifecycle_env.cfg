SPECIFICATION Spec
CONSTANTS MaxCalls = 5  MaxIO = 8  TwoFaults = FALSE  MaxPolicyChanges = 1  Gen = FALSE  FreshTriad = TRUE
INVARIANT NoViolation
INVARIANT OnlyLibraryFailures
INVARIANT CloseResetsNoHist
INVARIANT ConnectedMeansOpen
INVARIANT FallbackOrderAndSize
PROPERTY Terminates
CHECK_DEADLOCK FALSE
