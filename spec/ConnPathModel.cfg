SPECIFICATION Spec
CONSTANT Small = TRUE
INVARIANT SpellingIndependent
INVARIANT OddRejected
INVARIANT BadTokensRejected
INVARIANT AutoSlot
CHECK_DEADLOCK FALSE
