SPECIFICATION Spec
CONSTANTS MaxCalls = 3  MaxIO = 12  TwoFaults = FALSE  MaxPolicyChanges = 0  Gen = TRUE  FreshTriad = TRUE
INVARIANT Emit
CHECK_DEADLOCK FALSE
