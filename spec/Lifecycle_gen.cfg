SPECIFICATION Spec
CONSTANTS MaxCalls = 3  MaxIO = 12  Gen = TRUE
INVARIANT Emit
CHECK_DEADLOCK FALSE
