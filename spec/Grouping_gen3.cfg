SPECIFICATION Spec
CONSTANTS S = 500  MaxReq = 3  DataSizes = {1, 236, 238, 240, 242, 478, 480, 482}  PathLens = {4, 40}
INVARIANT Emit
INVARIANT GroupReplyFits
INVARIANT GroupRequestFits
CHECK_DEADLOCK FALSE
