---------------------------- MODULE LogixMemModel ----------------------------
(* R1 for C01 / C02: on a small project the controller model (LogixTarget: what the services do to memory) and the   *)
(* user's view (LogixView: what read() must return / what write() must change) agree with each other:                *)
(*   - executing the canonical Write Tag / Read-Modify-Write service for an intent changes memory exactly as        *)
(*     LogixView!ExpectWrite says, and only inside the addressed slice;                                             *)
(*   - the canonical Read Tag service for the same intent then returns the bytes LogixView!ExpectRead decodes to    *)
(*     the written value.                                                                                           *)
EXTENDS LogixView, TLC

N(s) == s
TagD  == <<68, 49>>          \* "D1"  DINT
TagA  == <<65, 49>>          \* "A1"  INT[3]
TagB  == <<66, 65>>          \* "BA"  BOOL[64]
TagU  == <<85, 49>>          \* "U1"  UDT
TagS  == <<83, 49>>          \* "S1"  STR4
Host  == ZPrefix \o <<72>>
Atomic(c) == [k |-> "atomic", code |-> c]
Mb(n, t, arr, off, bit) == [name |-> n, t |-> t, arr |-> arr, off |-> off, bit |-> bit]
P0 == [name |-> <<80>>,
       templates |-> << [id |-> 300, name |-> <<85, 68, 84>>, handle |-> 4660, size |-> 8, namepad |-> 0,
                         members |-> << Mb(Host, Atomic(194), 0, 0, -1), Mb(<<98, 48>>, Atomic(193), 0, 0, 0), Mb(<<98, 49>>, Atomic(193), 0, 0, 1),
                                        Mb(<<97>>, Atomic(195), 0, 2, -1), Mb(<<99>>, Atomic(194), 2, 4, -1) >>],
                        [id |-> 301, name |-> <<83, 84, 82, 52>>, handle |-> 22136, size |-> 8, namepad |-> 0,
                         members |-> << Mb(LenName, Atomic(196), 0, 0, -1), Mb(DataName, Atomic(194), 4, 4, -1) >>] >>,
       symbols |-> << [name |-> TagD, iid |-> <<0, 5>>, scope |-> <<>>, kind |-> "tag", t |-> Atomic(196), dims |-> <<0, 0, 0>>, typeword |-> 0, bitpos |-> 0, sysflag |-> 0, sc |-> <<0, 0, 0, 4>>, access |-> 0],
                      [name |-> TagA, iid |-> <<0, 6>>, scope |-> <<>>, kind |-> "tag", t |-> Atomic(195), dims |-> <<3, 0, 0>>, typeword |-> 0, bitpos |-> 0, sysflag |-> 0, sc |-> <<0, 0, 0, 4>>, access |-> 0],
                      [name |-> TagB, iid |-> <<0, 7>>, scope |-> <<>>, kind |-> "tag", t |-> Atomic(211), dims |-> <<2, 0, 0>>, typeword |-> 0, bitpos |-> 0, sysflag |-> 0, sc |-> <<0, 0, 0, 4>>, access |-> 0],
                      [name |-> TagU, iid |-> <<0, 8>>, scope |-> <<>>, kind |-> "tag", t |-> [k |-> "struct", tid |-> 300], dims |-> <<0, 0, 0>>, typeword |-> 0, bitpos |-> 0, sysflag |-> 0, sc |-> <<0, 0, 0, 4>>, access |-> 0],
                      [name |-> TagS, iid |-> <<0, 9>>, scope |-> <<>>, kind |-> "tag", t |-> [k |-> "struct", tid |-> 301], dims |-> <<0, 0, 0>>, typeword |-> 0, bitpos |-> 0, sysflag |-> 0, sc |-> <<0, 0, 0, 4>>, access |-> 0] >>]
Key(n) == <<<<>>, n>>
Mem(v) == << [key |-> Key(TagA), b |-> [i \in 1..6 |-> v]], [key |-> Key(TagB), b |-> [i \in 1..8 |-> v]], [key |-> Key(TagD), b |-> [i \in 1..4 |-> v]],
             [key |-> Key(TagS), b |-> <<2, 0, 0, 0, v, v, v, v>>], [key |-> Key(TagU), b |-> [i \in 1..8 |-> v]] >>
Lx(v) == [on |-> TRUE, P |-> P0, mem |-> Mem(v), pre |-> Mem(v), nsvc |-> 0, capi |-> 0, pagei |-> 0, xfer |-> <<>>, ledger |-> <<>>, svclog |-> <<>>,
          okslices |-> {}, texts |-> <<>>, access |-> <<>>, fw |-> 32, allprogs |-> TRUE, unspecInj |-> FALSE, upl |-> [pages |-> 0, refused |-> FALSE]]

Lv(n, idx) == [n |-> n, idx |-> idx]
It(levels, bit, count, value) == [scope |-> <<>>, levels |-> levels, bit |-> bit, count |-> count, hascount |-> IF count > 1 THEN 1 ELSE 0, base |-> <<>>, value |-> value]
I(n) == MkI(IF n < 0 THEN MkBig(1, Rev(LE(-n, 4))) ELSE SmallToBig(n))
Intents ==
    {It(<<Lv(TagD, <<>>)>>, -1, 1, I(v)) : v \in {0, -1, 305419896}}
    \cup {It(<<Lv(TagD, <<>>)>>, b, 1, MkB(x)) : b \in {0, 7, 8, 31}, x \in BOOLEAN}
    \cup {It(<<Lv(TagA, <<i>>)>>, -1, 1, I(v)) : i \in 0..2, v \in {-32768, 258}}
    \cup {It(<<Lv(TagA, <<1>>)>>, -1, 2, MkL(<<I(1), I(-2)>>)), It(<<Lv(TagA, <<>>)>>, -1, 3, MkL(<<I(7), I(8), I(9)>>))}
    \cup {It(<<Lv(TagB, <<i>>)>>, -1, 1, MkB(x)) : i \in {0, 31, 32, 63}, x \in BOOLEAN}
    \cup {It(<<Lv(TagB, <<32>>)>>, -1, 32, MkL([j \in 1..32 |-> MkB(j % 3 = 0)]))}
    \cup {It(<<Lv(TagU, <<>>), Lv(<<97>>, <<>>)>>, -1, 1, I(v)) : v \in {0, -2}}
    \cup {It(<<Lv(TagU, <<>>), Lv(<<98, 49>>, <<>>)>>, -1, 1, MkB(x)) : x \in BOOLEAN}
    \cup {It(<<Lv(TagU, <<>>), Lv(<<99>>, <<1>>)>>, -1, 1, I(-3))}
    \cup {It(<<Lv(TagU, <<>>)>>, -1, 1, MkD(<<<<MkS(<<98, 48>>), MkB(TRUE)>>, <<MkS(<<98, 49>>), MkB(FALSE)>>, <<MkS(<<97>>), I(513)>>, <<MkS(<<99>>), MkL(<<I(1), I(-1)>>)>>>>))}
    \cup {It(<<Lv(TagS, <<>>)>>, -1, 1, MkS(s)) : s \in {<<>>, <<65>>, <<65, 66, 67, 68>>, <<65, 66, 67, 68, 69, 70>>}}

VARIABLES fill, it
Init == fill \in {0, 255, 90} /\ it \in Intents
Next == UNCHANGED <<fill, it>>
Spec == Init /\ [][Next]_<<fill, it>>

lx0 == Lx(fill)
W   == ExpectWrite(lx0, it)
Valid == W.cls = "valid"
\* the canonical request of the intent
IsBoolArr == it.levels[1].n = TagB
ReqSegs == IF IsBoolArr /\ it.count = 1 THEN <<Sym(TagB), Log("member", SmallToBig(it.levels[1].idx[1] \div 32))>>
           ELSE IF IsBoolArr THEN <<Sym(TagB), Log("member", SmallToBig(it.levels[1].idx[1] \div 32))>>
           ELSE IntentSegs(it)
R0 == Resolve(P0, ReqSegs)
UseRmw == W.bit >= 0 /\ R0.bit < 0                     \* a bit of an integer / of a BOOL-array word: Read-Modify-Write
EsR == TSize(P0, R0.t)
BitInWord == IF IsBoolArr THEN it.levels[1].idx[1] % 32 ELSE it.bit
MaskBytes(on) == LET pos == BitInWord IN [i \in 1..EsR |-> IF i = (pos \div 8) + 1 THEN (IF on THEN Pow2(pos % 8) ELSE 255 - Pow2(pos % 8)) ELSE (IF on THEN 0 ELSE 255)]
ReqData == IF UseRmw THEN LE(EsR, 2) \o (IF W.on THEN MaskBytes(TRUE) ELSE Zeros(EsR)) \o (IF W.on THEN [i \in 1..EsR |-> 255] ELSE MaskBytes(FALSE))
           ELSE IF R0.bit >= 0 THEN TypeHeader(P0, R0.t) \o LE(1, 2) \o <<IF W.on THEN 255 ELSE 0>>
           ELSE TypeHeader(P0, R0.t) \o LE(IF IsBoolArr THEN it.count \div 32 ELSE it.count, 2) \o W.bytes
Svc == IF UseRmw THEN 78 ELSE 77
Done == TagService(lx0, Svc, Canon(ReqSegs), ReqSegs, ReqData, 4000, [none |-> 1], FALSE)

AllValid == Valid
ServiceAccepts == Done.fail = "" /\ Done.reply[3] = 0
EffectAsView == Done.lx.mem = ApplyW(lx0, W).mem
OnlyAddressedBytesChange ==
    \A k \in 1..Len(lx0.mem) : \A j \in 1..Len(lx0.mem[k].b) :
        (lx0.mem[k].key # W.key \/ j <= W.off \/ j > W.off + (IF W.bit >= 0 THEN 1 ELSE Len(W.bytes))) => Done.lx.mem[k].b[j] = lx0.mem[k].b[j]
BitWriteTouchesOneBit ==
    W.bit >= 0 => \A b \in 0..7 : b # W.bit => BitOf(MemOf(Done.lx, W.key)[W.off + 1], b) = BitOf(MemOf(lx0, W.key)[W.off + 1], b)
\* reading the same address afterwards returns the written value (strings cut at capacity)
ExpectedBack == IF IsS(it.value) /\ Len(it.value.s) > 4 THEN MkS(SubSeq(it.value.s, 1, 4)) ELSE it.value
ReadAfterWrite == LET e == ExpectRead(Done.lx, it) IN e.cls = "valid" /\ TermEq(e.val, ExpectedBack)
\* and the Read Tag service returns exactly the slice the view decodes
ReadServiceMatchesImage ==
    (~IsBoolArr /\ it.bit < 0 /\ R0.bit < 0) =>
        LET rr == TagService(Done.lx, 76, Canon(ReqSegs), ReqSegs, LE(it.count, 2), 4000, [none |-> 1], FALSE)
            e == ExpectRead(Done.lx, it)
        IN rr.fail = "" /\ rr.reply = MRReply(76, 0, <<>>, TypeHeader(P0, R0.t) \o SubSeq(MemOf(Done.lx, e.key), e.off + 1, e.off + e.len))
==============================================================================
