SPECIFICATION Spec
INVARIANT AllValid
INVARIANT ServiceAccepts
INVARIANT EffectAsView
INVARIANT OnlyAddressedBytesChange
INVARIANT BitWriteTouchesOneBit
INVARIANT ReadAfterWrite
INVARIANT ReadServiceMatchesImage
CHECK_DEADLOCK FALSE
