SPECIFICATION Spec
CONSTANTS H = 24  LenAt = 4  RS = 256  MaxBody = 1  MaxMsg = 1  MaxCalls = 2  GenChunks = {1, 3, 4, 20, 21, 23, 24, 25}  MaxParts = 6  Gen = TRUE
INVARIANT Emit
CHECK_DEADLOCK FALSE
