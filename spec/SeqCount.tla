------------------------------ MODULE SeqCount ------------------------------
(* Property C17.  The connected-message sequence counter of pycomm3: util.cycle(N, start=1) yields 1..N and wraps  *)
(* to 1; a count is TAKEN when a packet object is constructed and SENT first in the connected data item.            *)
(* Design operations (one history step each, as the code performs them):                                            *)
(*   G        generic / single read / single write / RMW / upload page / SLC: take 1 (+ 1 for the SLC TNS), send    *)
(*   F(f)     fragmented transfer of f fragments: take 1 for the request that is never sent itself, then per        *)
(*            fragment take 1 and send                                                                              *)
(*   M(k, p)  multi-service call with k member requests in p packets: the members take MemberTakes counts each      *)
(*            (1 in the original design - they are never sent on their own - 0 after the repair), then per packet   *)
(*            take 1 and send                                                                                       *)
(* Contract: every sent count differs from the one sent immediately before it.                                      *)
EXTENDS Integers, Sequences, TLC

CONSTANTS N,            \* modulus (65535 in the library)
          MaxOps,       \* history length
          MaxK,         \* largest number of members / fragments explored
          MemberTakes,  \* counts each member request of a multi-service packet draws (measured from the implementation)
          FragPre,      \* counts drawn before the first fragment of a fragmented transfer is sent (measured)
          SlcPre        \* extra counts an SLC request draws for its transaction number (measured)

VARIABLES ctr,          \* next value the generator yields
          last,         \* count of the message sent last (0 = none yet)
          ops, bad
vars == <<ctr, last, ops, bad>>

Nxt(c) == IF c = N THEN 1 ELSE c + 1
RECURSIVE Adv(_, _)
Adv(c, k) == IF k = 0 THEN c ELSE Adv(Nxt(c), k - 1)

Init == ctr \in 1..N /\ last = 0 /\ ops = 0 /\ bad = FALSE

\* take `pre` counts that are never sent, then `sends` times (take 1, send it)
RECURSIVE Sends(_, _, _, _)
Sends(c, l, sends, b) == IF sends = 0 THEN [c |-> c, l |-> l, b |-> b]
                         ELSE Sends(Nxt(c), c, sends - 1, b \/ (c = l))
Op(pre, sends) == /\ ops < MaxOps
                  /\ LET r == Sends(Adv(ctr, pre), last, sends, bad) IN ctr' = r.c /\ last' = r.l /\ bad' = r.b
                  /\ ops' = ops + 1

G      == Op(0, 1)
Slc    == Op(SlcPre, 1)
F(f)   == Op(FragPre, f)
M(k, p) == Op(k * MemberTakes, p)

Next == G \/ Slc \/ (\E f \in 1..MaxK : F(f)) \/ (\E k \in 1..MaxK : \E p \in 1..3 : p <= k /\ M(k, p))
Spec == Init /\ [][Next]_vars

Fresh == ~bad
=============================================================================
