----------------------------- MODULE LogixTarget -----------------------------
(* The Logix controller as the tag properties see it (C01-C05, C13 for tag services): project = symbols +          *)
(* templates, memory image per tag, path resolution, Read Tag / Read Tag Fragmented / Write Tag / Write Tag         *)
(* Fragmented / Read-Modify-Write / Multiple Service Packet, Symbol and Template objects, and the user's view        *)
(* (LogixView): what read() must return and what write() must change.  Transcribed from Rockwell 1756-PM020           *)
(* "Logix 5000 Data Access".                                                                                          *)
EXTENDS Encap, EPath, CipTypes, EnumMap

LHas(r, f) == f \in DOMAIN r
LOpt(r, f, d) == IF f \in DOMAIN r THEN r[f] ELSE d

(* ------------------------------------------------ project ------------------------------------------------ *)
AtomicSize(code) == CASE code \in {193, 194, 198, 209} -> 1 [] code \in {195, 199, 210} -> 2
                      [] code \in {196, 200, 202, 211} -> 4 [] code \in {197, 201, 203, 212} -> 8 [] OTHER -> 0
TplIdx(P, tid) == CHOOSE i \in 1..Len(P.templates) : P.templates[i].id = tid
Tpl(P, tid) == P.templates[TplIdx(P, tid)]
HasTpl(P, tid) == \E i \in 1..Len(P.templates) : P.templates[i].id = tid
TSize(P, t) == IF t.k = "atomic" THEN AtomicSize(t.code) ELSE Tpl(P, t.tid).size
TypeHeader(P, t) == IF t.k = "atomic" THEN <<t.code, 0>> ELSE <<160, 2>> \o LE(Tpl(P, t.tid).handle, 2)
Dims(d) == SelectSeq(d, LAMBDA x : x # 0)
Prod(d) == FoldLeft(LAMBDA a, x : a * x, 1, d)
ProgPrefix == <<80, 114, 111, 103, 114, 97, 109, 58>>                     \* "Program:"
IsProgName(n) == Len(n) > 8 /\ SubSeq(n, 1, 8) = ProgPrefix

MemIdx(lx, key) == CHOOSE i \in 1..Len(lx.mem) : lx.mem[i].key = key
MemOf(lx, key) == lx.mem[MemIdx(lx, key)].b
SetMem(lx, key, b) == [lx EXCEPT !.mem = [i \in 1..Len(lx.mem) |-> IF lx.mem[i].key = key THEN [key |-> key, b |-> b] ELSE lx.mem[i]]]
Patch(b, off, new) == [i \in 1..Len(b) |-> IF i > off /\ i <= off + Len(new) THEN new[i - off] ELSE b[i]]

(* --------------------------------------------- path resolution --------------------------------------------- *)
(* Resolve(P, segs) = [ok, status, ext, key, off, t, avail, bit]                                                   *)
RFail(st, ext) == [ok |-> FALSE, status |-> st, ext |-> ext, key |-> <<>>, off |-> 0, t |-> [k |-> "none"], avail |-> 0, bit |-> -1]
ROk(key, off, t, avail, bit) == [ok |-> TRUE, status |-> 0, ext |-> <<>>, key |-> key, off |-> off, t |-> t, avail |-> avail, bit |-> bit]
IsMemberSeg(s) == s.k = "log" /\ s.lt = "member"
RunLen(segs, i) == LET n == Len(segs) IN
                   IF i > n \/ ~IsMemberSeg(segs[i]) THEN 0
                   ELSE Min({j \in i..n : j = n \/ ~IsMemberSeg(segs[j + 1])}) - i + 1
FindSym(P, scope, pred(_)) == {i \in 1..Len(P.symbols) : P.symbols[i].kind = "tag" /\ P.symbols[i].scope = scope /\ pred(P.symbols[i])}

RECURSIVE ResolveFrom(_, _, _, _, _, _, _)
ResolveFrom(P, segs, i, key, off, t, dims) ==
    LET r   == RunLen(segs, i)
        idx == [j \in 1..r |-> segs[i + j - 1].v]
        es  == TSize(P, t)
    IN
    IF r > 0 /\ (r # Len(dims) \/ \E j \in 1..r : ~BigIsSmall(idx[j]) \/ BigToSmall(idx[j]) >= dims[j]) THEN RFail(255, <<8453>>)
    ELSE LET lin   == FoldLeft(LAMBDA a, j : a * dims[j] + BigToSmall(idx[j]), 0, [j \in 1..r |-> j])
             total == Prod(dims)
             off2  == off + lin * es
             avail == IF r > 0 THEN total - lin ELSE total
             i2    == i + r
         IN
         IF i2 > Len(segs) THEN ROk(key, off2, t, avail, -1)
         ELSE IF segs[i2].k # "sym" \/ t.k # "struct" \/ (Len(dims) > 0 /\ r = 0) THEN RFail(5, <<>>)
         ELSE LET tp == Tpl(P, t.tid)
                  hits == {j \in 1..Len(tp.members) : tp.members[j].name = segs[i2].name}
              IN IF hits = {} THEN RFail(5, <<>>)
                 ELSE LET mb == tp.members[CHOOSE j \in hits : TRUE] IN
                      IF mb.bit >= 0 THEN (IF i2 + 1 <= Len(segs) THEN RFail(5, <<>>) ELSE ROk(key, off2 + mb.off, mb.t, 1, mb.bit))
                      ELSE ResolveFrom(P, segs, i2 + 1, key, off2 + mb.off, mb.t, IF mb.arr > 0 THEN <<mb.arr>> ELSE <<>>)

Resolve(P, segs) ==
    LET prog  == Len(segs) >= 1 /\ segs[1].k = "sym" /\ IsProgName(segs[1].name)
        scope == IF prog THEN SubSeq(segs[1].name, 9, Len(segs[1].name)) ELSE <<>>
        i     == IF prog THEN 2 ELSE 1
    IN IF i > Len(segs) THEN RFail(5, <<>>)
       ELSE IF segs[i].k = "sym" THEN
            LET hits == FindSym(P, scope, LAMBDA s : s.name = segs[i].name) IN
            IF hits = {} THEN RFail(5, <<>>)
            ELSE LET s == P.symbols[CHOOSE j \in hits : TRUE] IN ResolveFrom(P, segs, i + 1, <<s.scope, s.name>>, 0, s.t, Dims(s.dims))
       ELSE IF i + 1 <= Len(segs) /\ SegEq(segs[i], Log("class", <<0, 107>>)) /\ segs[i + 1].k = "log" /\ segs[i + 1].lt = "instance" THEN
            LET hits == FindSym(P, scope, LAMBDA s : s.iid = segs[i + 1].v) IN
            IF hits = {} THEN RFail(5, <<>>)
            ELSE LET s == P.symbols[CHOOSE j \in hits : TRUE] IN ResolveFrom(P, segs, i + 2, <<s.scope, s.name>>, 0, s.t, Dims(s.dims))
       ELSE RFail(5, <<>>)

(* ------------------------------------------ type descriptors (view) ------------------------------------------ *)
ZPrefix == <<90, 90, 90, 90, 90, 90, 90, 90, 90, 90>>
IsPrivate(n) == (Len(n) >= 10 /\ SubSeq(n, 1, 10) = ZPrefix) \/ (Len(n) >= 2 /\ n[1] = 95 /\ n[2] = 95)
LenName  == <<76, 69, 78>>
DataName == <<68, 65, 84, 65>>
\* a template is a string type when its visible members are exactly LEN: DINT and DATA: SINT[n]
IsStringTpl(tp) ==
    LET vis == SelectSeq(tp.members, LAMBDA mb : ~IsPrivate(mb.name)) IN
    /\ Len(vis) = 2 /\ vis[1].name = LenName /\ vis[2].name = DataName
    /\ vis[2].t.k = "atomic" /\ vis[2].t.code = 194 /\ vis[2].arr > 0
StringCap(tp) == SelectSeq(tp.members, LAMBDA mb : mb.name = DataName)[1].arr

RECURSIVE TypeDesc(_, _)
TypeDesc(P, t) ==
    IF t.k = "atomic" THEN CodeType(t.code)
    ELSE LET tp == Tpl(P, t.tid) IN
         IF IsStringTpl(tp) THEN [k |-> "fixedstr", cap |-> tp.size - 4, lw |-> 4, capn |-> StringCap(tp)]
         ELSE LET real == SelectSeq(tp.members, LAMBDA mb : mb.bit < 0)
                  bits == SelectSeq(tp.members, LAMBDA mb : mb.bit >= 0)
              IN [k |-> "structtag", size |-> tp.size,
                  m |-> [i \in 1..Len(real) |-> [n |-> real[i].name, off |-> real[i].off,
                                                 t |-> IF real[i].arr > 0
                                                       THEN [k |-> "arr", lk |-> "fixed", n |-> real[i].arr, lt |-> [k |-> "none"], el |-> TypeDesc(P, real[i].t)]
                                                       ELSE TypeDesc(P, real[i].t)]],
                  bits |-> [i \in 1..Len(bits) |-> [n |-> bits[i].name, off |-> bits[i].off, bit |-> bits[i].bit]],
                  priv |-> [i \in 1..Len(SelectSeq(tp.members, LAMBDA mb : IsPrivate(mb.name))) |-> SelectSeq(tp.members, LAMBDA mb : IsPrivate(mb.name))[i].name]]

AtomicName(code) ==
    CASE code = 193 -> <<66, 79, 79, 76>> [] code = 194 -> <<83, 73, 78, 84>> [] code = 195 -> <<73, 78, 84>>
      [] code = 196 -> <<68, 73, 78, 84>> [] code = 197 -> <<76, 73, 78, 84>> [] code = 198 -> <<85, 83, 73, 78, 84>>
      [] code = 199 -> <<85, 73, 78, 84>> [] code = 200 -> <<85, 68, 73, 78, 84>> [] code = 201 -> <<85, 76, 73, 78, 84>>
      [] code = 202 -> <<82, 69, 65, 76>> [] code = 203 -> <<76, 82, 69, 65, 76>> [] code = 211 -> <<68, 87, 79, 82, 68>>
      [] code = 209 -> <<66, 89, 84, 69>> [] code = 210 -> <<87, 79, 82, 68>> [] code = 212 -> <<76, 87, 79, 82, 68>>
      [] OTHER -> <<63>>
TypeName(P, t) == IF t.k = "atomic" THEN AtomicName(t.code) ELSE Tpl(P, t.tid).name
BoolName == <<66, 79, 79, 76>>
WithCount(name, n) == name \o <<91>> \o DecDigitsN(n) \o <<93>>

(* ------------------------------------------------ state ------------------------------------------------ *)
LxInit(cfg) ==
    IF LOpt(cfg, "has_project", 0) = 0 THEN [on |-> FALSE]
    ELSE [ on |-> TRUE, P |-> cfg.project, mem |-> cfg.mem, pre |-> cfg.mem,
           nsvc |-> 0, capi |-> 0, pagei |-> 0,
           xfer |-> <<>>,                   \* open fragmented transfers: [path, svc, next, total, count]
           ledger |-> <<>>,                 \* write services executed during the current call: [key, off, len]
           svclog |-> <<>>,                 \* FAILED tag services of the current call: [key, off, bit, svc, status, ext]
           okslices |-> {},                 \* <<key, off>> of slices with a successful service in the current call
           texts |-> LOpt(cfg, "status_texts", <<>>),
           access |-> LOpt(cfg, "access_texts", <<>>), fw |-> LOpt(cfg, "fw", 0), allprogs |-> LOpt(cfg, "all_programs", 1) = 1,
           unspecInj |-> FALSE,             \* a service of the current call was answered with an injected "partial transfer" (6): what it did is not specified
           upl |-> [pages |-> 0, refused |-> FALSE] ]      \* refused: a symbol-list page of the current call was answered with an error status

LxCall(lx, ev) == IF ~lx.on THEN lx ELSE [lx EXCEPT !.pre = lx.mem, !.xfer = <<>>, !.ledger = <<>>, !.svclog = <<>>, !.okslices = {}, !.unspecInj = FALSE,
                                                    !.upl = [pages |-> 0, refused |-> FALSE]]
LxOpenMayFail(lx) == FALSE

IsTagSvc(svc) == svc \in {76, 82, 77, 83, 78}
LxHandles(lx, svc, segs) ==
    /\ lx.on
    /\ LET cls == IF Len(segs) >= 1 /\ segs[1].k = "log" /\ segs[1].lt = "class" /\ BigIsSmall(segs[1].v) THEN BigToSmall(segs[1].v) ELSE -1
           first == IF Len(segs) >= 1 THEN segs[1].k ELSE "none"
       IN \/ (IsTagSvc(svc) /\ (first = "sym" \/ cls = 107))
          \/ (svc = 10 /\ cls = 2)
          \/ (svc = 85 /\ (cls = 107 \/ first = "sym"))
          \/ (cls = 108 /\ svc \in {3, 76})
          \/ (cls = 100 /\ svc = 1)

(* ------------------------------------------ one tag service ------------------------------------------ *)
SvcR(fail, reply, lx) == [fail |-> fail, reply |-> reply, lx |-> lx]
\* per call: the failed services (few) and the set of slices that had a successful service (kept small: huge request
\* lists usually repeat a few slices)
\* status 6 (partial transfer) is success for Read Tag Fragmented and unspecified for Write Tag Fragmented (the
\* library lists it as a continuing service); every other non-zero status is a failure
SvcFailed(svc, status) == ~(status = 0 \/ (status = 6 /\ svc \in {82, 83}))
\* Only statuses INJECTED by the scenario are logged as failures: an error the target returns on its own for a
\* request whose intent is valid means the driver asked for the wrong thing, and the result is judged as usual.
LogInjected(lx, r, svc, status, ext) ==
    IF SvcFailed(svc, status) THEN [lx EXCEPT !.svclog = Append(@, [key |-> r.key, off |-> r.off, bit |-> r.bit, svc |-> svc, status |-> status, ext |-> ext])]
    ELSE lx
LogSvc(lx, r, svc, status, ext) ==
    IF SvcFailed(svc, status) THEN lx
    ELSE IF <<r.key, r.off>> \in lx.okslices THEN lx ELSE [lx EXCEPT !.okslices = @ \cup {<<r.key, r.off>>}]
XferIdx(lx, path, svc) == {i \in 1..Len(lx.xfer) : lx.xfer[i].path = path /\ lx.xfer[i].svc = svc}
DropXfer(lx, path, svc) == [lx EXCEPT !.xfer = SelectSeq(@, LAMBDA x : ~(x.path = path /\ x.svc = svc))]
PutXfer(lx, x) == [DropXfer(lx, x.path, x.svc) EXCEPT !.xfer = Append(@, x)]

\* rawpath identifies the transfer (the same bytes are used by every fragment); cap = bytes available for this reply
TagService(lx0, svc, rawpath, segs, data, cap, choice, embedded) ==
    LET lx1 == [lx0 EXCEPT !.nsvc = @ + 1]
        P == lx1.P
        inj == IF LHas(choice, "inject") THEN SelectSeq(choice.inject, LAMBDA e : e[1] = lx1.nsvc) ELSE <<>>
        r == Resolve(P, segs)
    IN
    IF Len(inj) > 0 THEN
        LET st == inj[1][2]  ext == SubSeq(inj[1], 3, Len(inj[1]))
            lx2 == IF r.ok THEN LogInjected(lx1, r, svc, st, ext) ELSE lx1
            \* a fragment answered with an injected error: the offsets of the rest of this transfer are no longer checked
            lx3 == IF svc \in {82, 83} THEN PutXfer(lx2, [path |-> rawpath, svc |-> svc, next |-> -1, total |-> 0, count |-> 0]) ELSE lx2
        IN SvcR("", MRReply(svc, st, ext, <<>>), [lx3 EXCEPT !.unspecInj = @ \/ st = 6])
    ELSE IF ~r.ok THEN SvcR("", MRReply(svc, r.status, r.ext, <<>>), lx1)
    ELSE LET es == TSize(P, r.t)  mem == MemOf(lx1, r.key)  hdr == TypeHeader(P, r.t) IN
    IF svc \in {76, 82} THEN                                                              \* Read Tag / Read Tag Fragmented
        IF Len(data) < (IF svc = 76 THEN 2 ELSE 6) THEN SvcR("", MRReply(svc, 19, <<>>, <<>>), lx1)
        ELSE LET n == U16(data, 1) IN
        IF n < 1 \/ n > r.avail THEN SvcR("", MRReply(svc, 255, <<8453>>, <<>>), LogSvc(lx1, r, svc, 255, <<8453>>))
        ELSE IF r.bit >= 0 THEN SvcR("", MRReply(svc, 0, <<>>, hdr \o <<IF BitOf(mem[r.off + 1], r.bit) = 1 THEN 255 ELSE 0>>), LogSvc(lx1, r, svc, 0, <<>>))
        ELSE LET total == n * es
                 start == IF svc = 82 THEN (IF FitsInt31(data, 3) THEN U32(data, 3) ELSE 2147483647) ELSE 0
                 room0 == cap - 4 - Len(hdr)
                 usecap == svc = 82 /\ LHas(choice, "caps") /\ lx1.capi < Len(choice.caps)
                 room == IF usecap THEN choice.caps[lx1.capi + 1] ELSE (IF room0 < 0 THEN 0 ELSE room0)
                 lx2 == IF usecap THEN [lx1 EXCEPT !.capi = @ + 1] ELSE lx1
             IN
             IF start > total THEN SvcR("", MRReply(svc, 255, <<8453>>, <<>>), lx2)
             ELSE IF usecap /\ (room < 0 \/ room > room0) THEN SvcR("MACHINERY:choice-cap", <<>>, lx2)
             ELSE LET got == IF total - start < room THEN total - start ELSE room
                      more == start + got < total
                      chunk == SubSeq(mem, r.off + start + 1, r.off + start + got)
                      xi == XferIdx(lx2, rawpath, 82)
                      expected == IF xi = {} THEN 0 ELSE lx2.xfer[CHOOSE i \in xi : TRUE].next
                      lx3 == LogSvc(lx2, r, svc, IF more THEN 6 ELSE 0, <<>>)
                  IN
                  IF svc = 76 /\ more THEN SvcR("C04:reply-too-large+C01:falsy-for-existing", <<>>, lx3)
                  ELSE IF svc = 82 /\ xi = {} /\ start # 0 THEN SvcR("C04:first-offset", <<>>, lx3)
                  ELSE IF svc = 82 /\ xi # {} /\ expected >= 0 /\ start # expected THEN SvcR("C04:read-offset+C01:value", <<>>, lx3)
                  ELSE SvcR("", MRReply(svc, IF more THEN 6 ELSE 0, <<>>, hdr \o chunk),
                            IF svc = 82 THEN (IF more THEN PutXfer(lx3, [path |-> rawpath, svc |-> 82, next |-> IF expected < 0 THEN -1 ELSE start + got, total |-> total, count |-> n])
                                              ELSE DropXfer(lx3, rawpath, 82))
                            ELSE lx3)
    ELSE IF svc \in {77, 83} THEN                                                         \* Write Tag / Write Tag Fragmented
        LET hl == Len(hdr)  need == hl + 2 + (IF svc = 83 THEN 4 ELSE 0) IN
        IF Len(data) < need THEN SvcR("", MRReply(svc, 19, <<>>, <<>>), LogSvc(lx1, r, svc, 19, <<>>))
        ELSE IF SubSeq(data, 1, hl) # hdr THEN SvcR("", MRReply(svc, 255, <<8455>>, <<>>), LogSvc(lx1, r, svc, 255, <<8455>>))
        ELSE LET n == U16(data, hl + 1) IN
        IF n < 1 \/ n > r.avail THEN SvcR("", MRReply(svc, 255, <<8453>>, <<>>), LogSvc(lx1, r, svc, 255, <<8453>>))
        ELSE IF svc = 77 THEN
            LET val == SubSeq(data, hl + 3, Len(data)) IN
            IF r.bit >= 0 THEN
                (IF Len(val) # 1 THEN SvcR("", MRReply(svc, IF Len(val) < 1 THEN 19 ELSE 21, <<>>, <<>>), LogSvc(lx1, r, svc, 19, <<>>))
                 ELSE LET nb == SetBit(mem, r.off, r.bit, val[1] # 0)
                          lx2 == [SetMem(lx1, r.key, nb) EXCEPT !.ledger = Append(@, [key |-> r.key, off |-> r.off, len |-> 1, bit |-> r.bit])]
                      IN SvcR("", MRReply(svc, 0, <<>>, <<>>), LogSvc(lx2, r, svc, 0, <<>>)))
            ELSE IF Len(val) < n * es THEN SvcR("", MRReply(svc, 19, <<>>, <<>>), LogSvc(lx1, r, svc, 19, <<>>))
            ELSE IF Len(val) > n * es THEN SvcR("", MRReply(svc, 21, <<>>, <<>>), LogSvc(lx1, r, svc, 21, <<>>))
            ELSE LET lx2 == [SetMem(lx1, r.key, Patch(mem, r.off, val)) EXCEPT !.ledger = Append(@, [key |-> r.key, off |-> r.off, len |-> Len(val), bit |-> -1])]
                 IN SvcR("", MRReply(svc, 0, <<>>, <<>>), LogSvc(lx2, r, svc, 0, <<>>))
        ELSE LET start == IF FitsInt31(data, hl + 3) THEN U32(data, hl + 3) ELSE 2147483647
                 val == SubSeq(data, hl + 7, Len(data))
                 xi == XferIdx(lx1, rawpath, 83)
                 expected == IF xi = {} THEN 0 ELSE lx1.xfer[CHOOSE i \in xi : TRUE].next
                 cnt == IF xi = {} THEN n ELSE lx1.xfer[CHOOSE i \in xi : TRUE].count
             IN
             IF start + Len(val) > n * es THEN SvcR("", MRReply(svc, 21, <<>>, <<>>), LogSvc(lx1, r, svc, 21, <<>>))
             ELSE IF Len(val) = 0 THEN SvcR("", MRReply(svc, 19, <<>>, <<>>), LogSvc(lx1, r, svc, 19, <<>>))
             ELSE IF expected >= 0 /\ (start # expected \/ cnt # n) THEN SvcR("C04:write-tiling+C02:effect", <<>>, lx1)
             ELSE LET lx2 == [SetMem(lx1, r.key, Patch(mem, r.off + start, val)) EXCEPT !.ledger = Append(@, [key |-> r.key, off |-> r.off + start, len |-> Len(val), bit |-> -1])]
                      lx3 == IF start + Len(val) < n * es THEN PutXfer(lx2, [path |-> rawpath, svc |-> 83, next |-> IF expected < 0 THEN -1 ELSE start + Len(val), total |-> n * es, count |-> n])
                             ELSE DropXfer(lx2, rawpath, 83)
                  IN SvcR("", MRReply(svc, 0, <<>>, <<>>), LogSvc(lx3, r, svc, 0, <<>>))
    ELSE                                                                                  \* Read-Modify-Write
        IF Len(data) < 2 THEN SvcR("", MRReply(svc, 19, <<>>, <<>>), LogSvc(lx1, r, svc, 19, <<>>))
        ELSE LET size == U16(data, 1) IN
        IF r.t.k # "atomic" \/ r.bit >= 0 \/ size # es \/ size \notin {1, 2, 4, 8} THEN SvcR("", MRReply(svc, 255, <<8455>>, <<>>), LogSvc(lx1, r, svc, 255, <<8455>>))
        ELSE IF Len(data) < 2 + 2 * size THEN SvcR("", MRReply(svc, 19, <<>>, <<>>), LogSvc(lx1, r, svc, 19, <<>>))
        ELSE IF Len(data) > 2 + 2 * size THEN SvcR("", MRReply(svc, 21, <<>>, <<>>), LogSvc(lx1, r, svc, 21, <<>>))
        ELSE LET orm == SubSeq(data, 3, 2 + size)  andm == SubSeq(data, 3 + size, 2 + 2 * size)
                 nb == [i \in 1..Len(mem) |-> IF i > r.off /\ i <= r.off + size
                                              THEN ByteAnd(ByteOr(mem[i], orm[i - r.off]), andm[i - r.off]) ELSE mem[i]]
                 lx2 == [SetMem(lx1, r.key, nb) EXCEPT !.ledger = Append(@, [key |-> r.key, off |-> r.off, len |-> size, bit |-> -2])]
             IN SvcR("", MRReply(svc, 0, <<>>, <<>>), LogSvc(lx2, r, svc, 0, <<>>))

(* ------------------------------------- Multiple Service Packet (0x0A) ------------------------------------- *)
RECURSIVE MultiFrom(_, _, _, _, _, _, _, _)
\* returns [fail, replies, lx, used]
MultiFrom(lx, data, offs, i, n, cap, used, choice) ==
    IF i > n THEN [fail |-> "", replies |-> <<>>, lx |-> lx, used |-> used]
    ELSE LET emb == SubSeq(data, offs[i] + 1, offs[i + 1])
             q == MRParse(emb) IN
         IF ~q.ok THEN [fail |-> "C14:malformed-request", replies |-> <<>>, lx |-> lx, used |-> used]
         ELSE LET pp == ParsePadded(q.path) IN
         IF ~pp.ok THEN [fail |-> "C09:parse", replies |-> <<>>, lx |-> lx, used |-> used]
         ELSE IF ~IsTagSvc(q.svc) THEN [fail |-> "MACHINERY:multi-member", replies |-> <<>>, lx |-> lx, used |-> used]
         ELSE LET r == TagService(lx, q.svc, Canon(pp.segs), pp.segs, q.data, cap - used, choice, TRUE) IN
              IF r.fail # "" THEN [fail |-> r.fail, replies |-> <<>>, lx |-> r.lx, used |-> used]
              ELSE LET rest == MultiFrom(r.lx, data, offs, i + 1, n, cap, used + Len(r.reply), choice) IN
                   [fail |-> rest.fail, replies |-> <<r.reply>> \o rest.replies, lx |-> rest.lx, used |-> rest.used]

MultiService(lx, data, cap, choice) ==
    IF Len(data) < 2 THEN SvcR("C14:malformed-request", <<>>, lx)
    ELSE LET n == U16(data, 1) IN
    IF n < 1 \/ Len(data) < 2 + 2 * n THEN SvcR("C14:malformed-request", <<>>, lx)
    ELSE LET offs == [i \in 1..(n + 1) |-> IF i <= n THEN U16(data, 1 + 2 * i) ELSE Len(data)] IN
    IF offs[1] # 2 + 2 * n \/ \E i \in 1..n : offs[i] >= offs[i + 1] THEN SvcR("C14:malformed-request", <<>>, lx)
    ELSE LET r == MultiFrom(lx, data, offs, 1, n, cap, 4 + 2 + 2 * n, choice) IN
         IF r.fail # "" THEN SvcR(r.fail, <<>>, r.lx)
         ELSE IF r.used > cap THEN SvcR("C04:reply-too-large+C01:falsy-for-existing", <<>>, r.lx)
         ELSE LET anyfail == \E i \in 1..n : r.replies[i][3] # 0
                  roffs == [i \in 1..n |-> 2 + 2 * n + FoldLeft(LAMBDA a, j : a + Len(r.replies[j]), 0, [j \in 1..(i - 1) |-> j])]
                  body == LE(n, 2) \o FlattenSeq([i \in 1..n |-> LE(roffs[i], 2)]) \o FlattenSeq(r.replies)
              IN SvcR("", MRReply(10, IF anyfail THEN 30 ELSE 0, <<>>, body), r.lx)

(* ------------------------------------- Symbol and Template objects ------------------------------------- *)
SymTypeWord(P, s) ==
    IF s.kind # "tag" THEN s.typeword
    \* bits 8-10 of an atomic BOOL's type word: the position of the bit inside its host byte (the value is still read as a BOOL)
    ELSE (IF s.t.k = "atomic" THEN s.t.code + 256 * s.bitpos ELSE 32768 + s.t.tid) + 8192 * Len(Dims(s.dims)) + (IF s.sysflag = 1 THEN 4096 ELSE 0)
SymRecord(P, s, attrs) ==
    LE32Big(s.iid) \o FlattenSeq([i \in 1..Len(attrs) |->
        CASE attrs[i] = 1 -> LE(Len(s.name), 2) \o s.name
          [] attrs[i] = 2 -> LE(SymTypeWord(P, s), 2)
          [] attrs[i] \in {3, 5} -> Zeros(4)
          [] attrs[i] = 6 -> s.sc
          [] attrs[i] = 8 -> LE(s.dims[1], 4) \o LE(s.dims[2], 4) \o LE(s.dims[3], 4)
          [] attrs[i] = 10 -> <<s.access>>
          [] OTHER -> <<>>])

\* instance ids are compared as big integers (most significant digit first, canonical)
BigLE(a, b) == LET ma == Mag(a)  mb == Mag(b) IN
               IF Len(ma) # Len(mb) THEN Len(ma) < Len(mb)
               ELSE \/ ma = mb
                    \/ \E k \in 1..Len(ma) : ma[k] < mb[k] /\ \A j \in 1..(k - 1) : ma[j] = mb[j]
SymbolList(lx, segs, data, cap, choice) ==
    LET P == lx.P
        prog == segs[1].k = "sym"
        scope == IF prog THEN SubSeq(segs[1].name, 9, Len(segs[1].name)) ELSE <<>>
        rest == IF prog THEN SubSeq(segs, 2, Len(segs)) ELSE segs
    IN IF Len(rest) # 2 \/ rest[2].k # "log" \/ rest[2].lt # "instance" \/ Len(data) < 2 THEN SvcR("C05:symbol-request", <<>>, lx)
       ELSE LET start == rest[2].v
                na == U16(data, 1)
            IN IF Len(data) # 2 + 2 * na THEN SvcR("C05:symbol-request", <<>>, lx)
               ELSE LET attrs == [i \in 1..na |-> U16(data, 1 + 2 * i)]
                        progknown == \E i \in 1..Len(P.symbols) : P.symbols[i].kind = "program" /\ P.symbols[i].name = ProgPrefix \o scope
                    IN IF LHas(choice, "pagefail")                  \* the controller refuses this page (busy, ...): the upload cannot be complete
                       THEN SvcR("", MRReply(85, choice.pagefail, <<>>, <<>>), [lx EXCEPT !.upl = [@ EXCEPT !.refused = TRUE]])
                       ELSE IF prog /\ ~progknown THEN SvcR("", MRReply(85, 5, <<>>, <<>>), lx)
                       ELSE LET todo == SelectSeq(P.symbols, LAMBDA s : s.scope = scope /\ BigLE(start, s.iid))   \* project lists symbols by ascending id
                                k == IF LHas(choice, "pages") /\ lx.pagei < Len(choice.pages) THEN choice.pages[lx.pagei + 1] ELSE Len(todo)
                                out == FlattenSeq([i \in 1..k |-> SymRecord(P, todo[i], attrs)])
                            IN IF k > Len(todo) \/ (k < 1 /\ Len(todo) > 0) \/ 4 + Len(out) > cap THEN SvcR("MACHINERY:choice-page", <<>>, lx)
                               ELSE SvcR("", MRReply(85, IF k < Len(todo) THEN 6 ELSE 0, <<>>, out), [lx EXCEPT !.pagei = @ + 1])

MemberRecord(mb) ==
    LET tw == (IF mb.t.k = "atomic" THEN mb.t.code ELSE 32768 + mb.t.tid) + (IF mb.arr > 0 THEN 8192 ELSE 0)
    IN LE(IF mb.bit >= 0 THEN mb.bit ELSE mb.arr, 2) \o LE(tw, 2) \o LE(mb.off, 4)
TemplateBlobRaw(tp) ==
    FlattenSeq([i \in 1..Len(tp.members) |-> MemberRecord(tp.members[i])])
    \o tp.name \o <<59, 110>> \o [i \in 1..tp.namepad |-> 120] \o <<0>>
    \o FlattenSeq([i \in 1..Len(tp.members) |-> tp.members[i].name \o <<0>>])
DefSize(tp) == (Len(TemplateBlobRaw(tp)) + 21 + 3) \div 4
TemplateBlob(tp) == LET raw == TemplateBlobRaw(tp) IN raw \o Zeros(DefSize(tp) * 4 - 21 - Len(raw))

TemplateSvc(lx, svc, segs, data, cap, choice) ==
    LET P == lx.P
        tid == IF Len(segs) = 2 /\ segs[2].k = "log" /\ segs[2].lt = "instance" /\ BigIsSmall(segs[2].v) THEN BigToSmall(segs[2].v) ELSE -1
    IN IF tid < 0 \/ ~HasTpl(P, tid) THEN SvcR("", MRReply(svc, 5, <<>>, <<>>), lx)
       ELSE LET tp == Tpl(P, tid) IN
       IF svc = 3 THEN
           SvcR("", MRReply(3, 0, <<>>, LE(4, 2) \o LE(4, 2) \o LE(0, 2) \o LE(DefSize(tp), 4) \o LE(5, 2) \o LE(0, 2) \o LE(tp.size, 4)
                                        \o LE(2, 2) \o LE(0, 2) \o LE(Len(tp.members), 2) \o LE(1, 2) \o LE(0, 2) \o LE(tp.handle, 2)), lx)
       ELSE IF Len(data) # 6 THEN SvcR("C05:template-request", <<>>, lx)
       ELSE LET blob == TemplateBlob(tp)
                start == IF FitsInt31(data, 1) THEN U32(data, 1) ELSE 2147483647
                ln == U16(data, 5)
                want == SubSeq(blob, start + 1, IF start + ln < Len(blob) THEN start + ln ELSE Len(blob))
                usecap == LHas(choice, "caps") /\ lx.capi < Len(choice.caps)
                room == IF usecap THEN choice.caps[lx.capi + 1] ELSE cap - 4
                chunk == SubSeq(want, 1, IF room < Len(want) THEN room ELSE Len(want))
            IN IF usecap /\ (room < 1 \/ room > cap - 4) THEN SvcR("MACHINERY:choice-cap", <<>>, lx)
               ELSE SvcR("", MRReply(76, IF Len(chunk) < Len(want) THEN 6 ELSE 0, <<>>, chunk), IF usecap THEN [lx EXCEPT !.capi = @ + 1] ELSE lx)

(* ------------------------------------------------ dispatcher ------------------------------------------------ *)
LxService(lx, svc, segs, data, cap, choice, call) ==
    LET cls == IF Len(segs) >= 1 /\ segs[1].k = "log" /\ segs[1].lt = "class" /\ BigIsSmall(segs[1].v) THEN BigToSmall(segs[1].v) ELSE -1
        lx0 == [lx EXCEPT !.capi = 0, !.pagei = 0]
    IN IF svc = 10 /\ cls = 2 THEN MultiService(lx0, data, cap, choice)
       ELSE IF svc = 85 THEN
            LET r == SymbolList(lx0, segs, data, cap, choice)
                \* the driver asks only for program scopes the controller itself listed: an unknown scope during an upload it
                \* drives itself (open, get_tag_list of all programs) is a wrong path, not a user error
                wrongScope == r.fail = "" /\ Len(r.reply) >= 3 /\ r.reply[3] = 5 /\ ~LHas(choice, "pagefail")
                              /\ (call.api \in {"open", "enter"} \/ (call.api = "get_tag_list" /\ LOpt(call.intent, "allprogs", 0) = 1))
            IN IF wrongScope THEN SvcR("C05:unknown-program+C09:meaning", <<>>, lx) ELSE r
       ELSE IF cls = 108 THEN TemplateSvc(lx0, svc, segs, data, cap, choice)
       ELSE IF cls = 100 THEN SvcR("", MRReply(1, 0, <<>>, LE(Len(lx.P.name), 2) \o lx.P.name), lx0)
       ELSE TagService(lx0, svc, Canon(segs), segs, data, cap, choice, FALSE)
==============================================================================
