SPECIFICATION Spec
CONSTANTS Sizes = {27}  MaxMult = 2  Paths = {2, 4}
INVARIANT FitsRequest
INVARIANT FitsReply
INVARIANT OffsetsContiguous
INVARIANT ExactCover
INVARIANT NoOverlap
CHECK_DEADLOCK FALSE
