SPECIFICATION Spec
INVARIANT InDomainAll
INVARIANT RoundTrip
INVARIANT ExactConsumption
INVARIANT TruncationClassified
INVARIANT DictEqualsPositional
INVARIANT FixedArrayTruncates
INVARIANT Injective
CHECK_DEADLOCK FALSE
