---------------------------- MODULE EnumMapModel ----------------------------
(* R1 sanity model for EnumMap: over every small table (names with case collisions, colliding codes)   *)
(* and every key, the lookup semantics is total and self-consistent.                                   *)
EXTENDS EnumMap, TLC

Names == {<<97>>, <<65>>, <<98>>, <<66, 98>>}          \* "a" "A" "b" "Bb"
Vals  == {"v1", "v2"}
KeysS == {<<97>>, <<65>>, <<98>>, <<66>>, <<98, 98>>, <<66, 66>>, <<99>>}
KeysV == {"v1", "v2", "v3"}

Tables == UNION {[names : [1..n -> Names], vals : [1..n -> Vals], bidir : BOOLEAN] : n \in 0..3}
Tab(t) == [names |-> t.names, vals |-> t.vals, rkeys |-> t.vals, bidir |-> t.bidir]
Keys   == {[s |-> s, isstr |-> TRUE, v |-> "none"] : s \in KeysS} \cup {[s |-> <<>>, isstr |-> FALSE, v |-> v] : v \in KeysV}

VARIABLES t, k
Init == t \in Tables /\ k \in Keys
Next == UNCHANGED <<t, k>>      \* the space is the set of initial states: every (table, key) pair
Spec == Init /\ [][Next]_<<t, k>>

Outcomes == {[kind |-> "missing"]} \cup {[kind |-> "res", tok |-> v, isstr |-> 0, s |-> <<>>] : v \in Vals}
            \cup {[kind |-> "res", tok |-> "name", isstr |-> 1, s |-> Lower(n)] : n \in Names}

\* some outcome is always acceptable (the semantics never demands the impossible)
Total == \E o \in Outcomes : LookupOk(Tab(t), k, o)
\* membership agrees with item access
Consistent == Present(Tab(t), k) <=> ~LookupOk(Tab(t), k, [kind |-> "missing"])
\* a name returned for a code is a member that carries the code
ReverseCarriesCode ==
    \A o \in Outcomes : (o.kind = "res" /\ o.isstr = 1 /\ LookupOk(Tab(t), k, o)) =>
        \E i \in Members(Tab(t)) : Lower(Tab(t).names[i]) = o.s /\ Tab(t).rkeys[i] = k.v
\* every casing of a declared name resolves to a value declared under that name (modulo case)
AnyCaseResolves ==
    \A i \in Members(Tab(t)) : \A s \in KeysS :
        Lower(s) = Lower(Tab(t).names[i]) => Tab(t).vals[i] \in FwdVals(Tab(t), [s |-> s, isstr |-> TRUE, v |-> "none"])
=============================================================================
