----------------------------- MODULE CodecModel -----------------------------
(* R1 for C06/C07/C08: the reference codec itself is checked exhaustively on a small type / value alphabet: *)
(* round trip, exact consumption with trailing junk, injectivity, dict = positional, every truncation point  *)
(* classified as a failure (never a value), unbounded arrays decode exactly the whole elements.              *)
EXTENDS CipTypes

I(w, s) == [k |-> "int", w |-> w, s |-> s]
BoolT   == [k |-> "bool"]
Str(lw, cw) == [k |-> "str", lw |-> lw, cw |-> cw]
Bits(w) == [k |-> "bits", w |-> w]
Fix(cap) == [k |-> "fixedstr", cap |-> cap, lw |-> 4]
Arr(lk, n, el) == [k |-> "arr", lk |-> lk, n |-> n, lt |-> I(1, 0), el |-> el]
St(m) == [k |-> "struct", m |-> m]
Mem(n, t) == [n |-> n, t |-> t]
Real(w) == [k |-> "real", w |-> w]

Leaves == {I(1, 0), I(1, 1), I(2, 0), I(2, 1), BoolT, Str(1, 1), Str(2, 2), Bits(1), Fix(2), Real(4)}
Types == Leaves
         \cup {Arr("fixed", 2, el) : el \in Leaves \ {Bits(1)}}     \* arrays of bit strings take flat lists (R3 covers them)
         \cup {Arr("unbounded", 0, el) : el \in {I(1, 0), I(2, 1), Str(1, 1), Fix(2), St(<<Mem(<<97>>, I(1, 0)), Mem(<<98>>, I(2, 0))>>)}}
         \cup {Arr("derived", 0, el) : el \in {I(2, 1), Str(1, 1)}}
         \cup {St(<<Mem(<<97>>, a), Mem(<<98>>, b)>>) : a \in {I(1, 1), Str(1, 1), BoolT}, b \in {I(2, 0), Str(2, 2), Fix(2)}}
         \cup {St(<<Mem(<<97>>, St(<<Mem(<<120>>, I(1, 0))>>)), Mem(<<98>>, Arr("fixed", 2, I(1, 1)))>>)}

Big(n) == IF n < 0 THEN MkBig(1, Rev(LE(-n, 4))) ELSE SmallToBig(n)
IntVals(t) == IF t.w = 1 THEN (IF t.s = 1 THEN {MkI(Big(n)) : n \in {-128, -1, 0, 1, 127}} ELSE {MkI(Big(n)) : n \in {0, 1, 128, 255}})
              ELSE (IF t.s = 1 THEN {MkI(Big(n)) : n \in {-32768, -256, -1, 0, 255, 256, 32767}} ELSE {MkI(Big(n)) : n \in {0, 255, 256, 65535}})
TextVals(cw) == IF cw = 1 THEN {MkS(<<>>), MkS(<<0>>), MkS(<<65, 255>>), MkS(<<255, 0, 65>>)}
                ELSE {MkS(<<>>), MkS(<<65>>), MkS(<<256, 65535>>), MkS(<<8364, 0, 255>>)}
FloatVals == {[f |-> <<0, 0>>], [f |-> <<1, 0>>], [f |-> <<0, 0, 1>>], [f |-> <<1, -1, 1, 1>>], [f |-> <<0, -149, 1>>],
              [f |-> <<0, 104, 1, 1, 1, 1, 1, 1, 1, 1, 1, 1, 1, 1, 1, 1, 1, 1, 1, 1, 1, 1, 1, 1, 1, 1>>], [F |-> "pinf"], [F |-> "ninf"]}
BitVals == {MkL([i \in 1..8 |-> MkB(FALSE)]), MkL([i \in 1..8 |-> MkB(TRUE)]), MkL([i \in 1..8 |-> MkB(i \in {1, 8})]), MkL([i \in 1..8 |-> MkB(i = 2)])}

RECURSIVE ValuesOf(_)
ValuesOf(t) ==
    CASE t.k = "int" -> IntVals(t)
      [] t.k = "bool" -> {MkB(TRUE), MkB(FALSE)}
      [] t.k = "real" -> FloatVals
      [] t.k = "str" -> TextVals(t.cw)
      [] t.k = "fixedstr" -> {MkS(<<>>), MkS(<<65>>), MkS(<<0, 255>>)}
      [] t.k = "bits" -> BitVals
      [] t.k = "arr" ->
           IF t.lk = "fixed" THEN {MkL(<<a, b>>) : a \in ValuesOf(t.el), b \in ValuesOf(t.el)}
           ELSE {MkL(<<>>)} \cup {MkL(<<a>>) : a \in ValuesOf(t.el)} \cup {MkL(<<a, b>>) : a \in ValuesOf(t.el), b \in ValuesOf(t.el)}
      [] t.k = "struct" ->
           IF Len(t.m) = 1 THEN {MkD(<<<<MkS(t.m[1].n), a>>>>) : a \in ValuesOf(t.m[1].t)}
           ELSE {MkD(<<<<MkS(t.m[1].n), a>>, <<MkS(t.m[2].n), b>>>>) : a \in ValuesOf(t.m[1].t), b \in ValuesOf(t.m[2].t)}

VARIABLES t, v
Init == t \in Types /\ v \in ValuesOf(t)
Next == UNCHANGED <<t, v>>               \* the space is the set of initial states: every (type, value) pair
Spec == Init /\ [][Next]_<<t, v>>

Greedy(ty) == ty.k = "arr" /\ ty.lk = "unbounded"
Pre(ty, val) == IF ty.k = "arr" /\ ty.lk = "derived" THEN <<Len(val.l)>> ELSE <<>>
Wire == Pre(t, v) \o Enc(t, v)

InDomainAll == EncR(t, v).st = "in"
RoundTrip   == LET d == Dec(t, Wire) IN d.st = "ok" /\ TermEq(d.val, v) /\ d.p = Len(Wire) + 1
ExactConsumption == ~Greedy(t) => \A junk \in {<<0>>, <<255, 1>>} :
                        LET d == Dec(t, Wire \o junk) IN d.st = "ok" /\ TermEq(d.val, v) /\ d.p = Len(Wire) + 1
\* a truncated encoding never decodes to a value (unbounded arrays: only at element boundaries, and then to a prefix)
TruncationClassified ==
    \A c \in 0..(Len(Wire) - 1) :
        LET d == Dec(t, SubSeq(Wire, 1, c)) IN
        IF Greedy(t) THEN (d.st = "ok" => \E k \in 0..Len(v.l) : TermEq(d.val, MkL(SubSeq(v.l, 1, k))))
        ELSE d.st \in {"empty", "inner", "short"} /\ (d.st = "empty" <=> c = 0)
\* positional and dict forms of a structure give the same bytes
Positional(ty, val) == MkL([i \in 1..Len(ty.m) |-> DictGet(val.d, ty.m[i].n).v])
DictEqualsPositional == t.k = "struct" => Enc(t, Positional(t, v)) = Enc(t, v) /\ EncR(t, Positional(t, v)).st = "in"
\* over-long input to a fixed array is cut to the array length
FixedArrayTruncates == (t.k = "arr" /\ t.lk = "fixed") => Enc(t, MkL(v.l \o v.l)) = Enc(t, v)
\* distinct values have distinct encodings (so a decoder can exist); REAL is excluded: rounding is not injective
NoReal(ty) == ty.k # "real" /\ (ty.k = "arr" => ty.el.k # "real")
Injective == NoReal(t) => \A w \in ValuesOf(t) : (Enc(t, w) = Enc(t, v)) => TermEq(w, v)
=============================================================================
