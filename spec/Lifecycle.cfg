SPECIFICATION Spec
CONSTANTS MaxCalls = 6  MaxIO = 14  TwoFaults = FALSE  MaxPolicyChanges = 0  Gen = FALSE  FreshTriad = TRUE
INVARIANT NoViolation
INVARIANT OnlyLibraryFailures
INVARIANT CloseResetsNoHist
INVARIANT ConnectedMeansOpen
INVARIANT FallbackOrderAndSize
PROPERTY Terminates
PROPERTY ReopenWorks
CHECK_DEADLOCK FALSE
