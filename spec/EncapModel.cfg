SPECIFICATION Spec
INVARIANT RoundTrip
INVARIANT LengthStrict
INVARIANT CommandStrict
INVARIANT StatusStrict
INVARIANT ItemsStrict
INVARIANT ShortRejected
CHECK_DEADLOCK FALSE
