------------------------------ MODULE SlcModel ------------------------------
(* R1 for C18: on a small data table, every PCCC masked write followed by a typed read returns what was written,    *)
(* a bit write touches exactly one bit, nothing outside the addressed words changes, and address fields of any       *)
(* value survive the 0xFF escape.                                                                                    *)
EXTENDS SlcTarget, TLC

Table0 == << [file |-> 7, type |-> "N", words |-> <<0, 65535, 4660>>], [file |-> 255, type |-> "B", words |-> <<43690, 0>>],
             [file |-> 8, type |-> "F", words |-> <<0, 16256, 1, 2>>] >>
ReqId == <<7, 9, 16, 1, 2, 3, 4>>
Fld(n) == IF n < 255 THEN <<n>> ELSE <<255>> \o LE(n, 2)
Req(fnc, size, file, ty, elem, sub, rest) == ReqId \o <<15, 0, 5, 0, fnc, size>> \o Fld(file) \o <<TypeCode(ty)>> \o Fld(elem) \o Fld(sub) \o rest

VARIABLES file, elem, mask, data
Init == /\ file \in {7, 8, 255} /\ elem \in {0, 1, 2, 255, 300} /\ mask \in {65535, 1, 32768, 255} /\ data \in {0, 65535, 21845}
Next == UNCHANGED <<file, elem, mask, data>>
Spec == Init /\ [][Next]_<<file, elem, mask, data>>

Ty == FileOf(Table0, file).type
InRange == elem * ElemWords(Ty) + 1 <= Len(FileOf(Table0, file).words)
W == PcccExec(Table0, Req(171, 2, file, Ty, elem, 0, LE(mask, 2) \o LE(data, 2)))
R == PcccExec(W.tab, Req(162, 2, file, Ty, elem, 0, <<>>))
OldWord == FileOf(Table0, file).words[elem * ElemWords(Ty) + 1]
NewWord == FileOf(W.tab, file).words[elem * ElemWords(Ty) + 1]

EscapeRoundTrips == LET q == PcccParse(Req(162, 2, file, Ty, elem, 0, <<>>)) IN q.ok /\ q.file = file /\ q.elem = elem /\ q.sub = 0
WriteThenRead == InRange => /\ W.ok /\ R.ok
                            /\ NewWord = WordOr(WordAnd(OldWord, WordNot(mask)), WordAnd(data, mask))
                            /\ R.reply = PcccReply(PcccParse(Req(162, 2, file, Ty, elem, 0, <<>>)), 0, <<>>, LE(NewWord, 2))
BitWriteTouchesOneBit == (InRange /\ mask \in {1, 32768}) => \A b \in 0..15 : (2 ^ b # mask) => BitOf16(NewWord, b) = BitOf16(OldWord, b)
NothingOutside == InRange => \A i \in 1..Len(Table0) :
                      \A j \in 1..Len(Table0[i].words) : (Table0[i].file # file \/ j # elem * ElemWords(Ty) + 1) => W.tab[i].words[j] = Table0[i].words[j]
OutOfRangeRefused == ~InRange => (W.tab = Table0 /\ W.reply[9] # 0)
=============================================================================
