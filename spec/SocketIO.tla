------------------------------ MODULE SocketIO ------------------------------
(* Property C12.  Contract and Design of pycomm3.socket_.Socket.receive / Socket.send over a TCP byte   *)
(* stream.  The frame is H header bytes (the 16-bit body length sits in bytes 3-4) followed by `body`    *)
(* bytes.  The environment (network) delivers the frame in chunks of any size, may close, may fail.      *)
(* Bytes are identified by their position, so "in order, exactly once" is visible.                       *)
EXTENDS Integers, Sequences, FiniteSets, TLC

CONSTANTS H,          \* header size (24 in the library)
          LenAt,      \* number of header bytes needed before the length field is known (4)
          RS,         \* bytes requested per recv (256)
          MaxBody,    \* bodies 0..MaxBody are explored
          MaxMsg,     \* send: message lengths 1..MaxMsg
          MaxCalls,   \* receive() calls made one after the other on the same Socket (>= 1)
          GenChunks,  \* chunk sizes the network uses ({} = every size; a small set keeps multi-call generation enumerable)
          MaxParts,   \* bound on the number of recv/send calls per behaviour (generation only; 0 = unbounded)
          Gen         \* TRUE: carry the schedule as a history variable and print terminal behaviours

VARIABLES mode,       \* "recv" | "send"
          body,       \* body length of the frame being received / message length being sent
          remaining,  \* recv: bytes of the frame the network has not delivered yet
          got,        \* recv: bytes accumulated by the driver;  send: bytes accepted by the network (total_sent)
          wire,       \* send: positions of the message bytes in the order the network accepted them
          pc,         \* driver control state
          outcome,    \* "none" | "frame" | "sent" | "CommError" | "foreign"
          hist,       \* schedule so far (only when Gen)
          ncall,      \* number of the current receive() / send() call on this Socket
          lastEnd     \* how the previous raw call ended the operation: "none" | "eof" | "err"
vars == <<mode, body, remaining, got, wire, pc, outcome, hist, ncall, lastEnd>>

F == H + body
Log(e) == IF Gen THEN Append(hist, e) ELSE hist
Parts  == IF Gen THEN Len(hist) ELSE 0
MayCall == MaxParts = 0 \/ ~Gen \/ Parts < MaxParts

Init == /\ mode \in {"recv", "send"}
        /\ body \in (IF mode = "recv" THEN 0..MaxBody ELSE 1..MaxMsg)
        /\ remaining = (IF mode = "recv" THEN H + body ELSE 0)
        /\ got = 0 /\ wire = <<>> /\ outcome = "none"
        /\ hist = (IF Gen /\ MaxCalls > 1 THEN <<1000 + body>> ELSE <<>>)      \* multi-call schedules name the frame of every call
        /\ pc = (IF mode = "recv" THEN "hdr" ELSE "send")
        /\ ncall = 1 /\ lastEnd = "none"

(* ---------------------------------------- receive: Design ---------------------------------------- *)
(* data = recv(RS); while len(data) < HEADER_SIZE: more; data_len = header field;                       *)
(* while len(data) - HEADER_SIZE < data_len: more; an empty recv or a socket error ends with CommError.  *)
NeedMore(g) == g < H \/ g - H < body
RecvChunk(k) ==                     \* the network hands over k >= 1 bytes (never more than asked or left)
    /\ mode = "recv" /\ pc \in {"hdr", "body"} /\ MayCall
    /\ k \in 1..remaining /\ k <= RS /\ (GenChunks = {} \/ k \in GenChunks)
    /\ got' = got + k /\ remaining' = remaining - k
    /\ pc' = IF got + k < H THEN "hdr" ELSE IF got + k - H < body THEN "body" ELSE "done"
    /\ outcome' = IF NeedMore(got + k) THEN "none" ELSE "frame"
    /\ hist' = Log(k)
    /\ UNCHANGED <<mode, body, wire, ncall, lastEnd>>
RecvEof ==                          \* peer closed: recv returns b""
    /\ mode = "recv" /\ pc \in {"hdr", "body"}
    /\ pc' = "failed" /\ outcome' = "CommError" /\ hist' = Log(0) /\ lastEnd' = "eof"
    /\ UNCHANGED <<mode, body, remaining, got, wire, ncall>>
RecvErr ==                          \* socket.error / time-out
    /\ mode = "recv" /\ pc \in {"hdr", "body"}
    /\ pc' = "failed" /\ outcome' = "CommError" /\ hist' = Log(-1) /\ lastEnd' = "err"
    /\ UNCHANGED <<mode, body, remaining, got, wire, ncall>>
(* The caller uses the same Socket again: after a complete frame, or after a socket error / time-out that ended the      *)
(* previous call in the middle of a frame.  receive() keeps nothing between calls: whatever the failed call had          *)
(* accumulated is gone, and the call returns exactly the frame that starts at the current position of the stream.        *)
NextRecvCall(b) ==
    /\ mode = "recv" /\ ncall < MaxCalls /\ MayCall
    /\ pc = "done" \/ (pc = "failed" /\ lastEnd = "err")
    /\ b \in 0..MaxBody
    /\ body' = b /\ remaining' = H + b /\ got' = 0 /\ pc' = "hdr" /\ outcome' = "none" /\ lastEnd' = "none"
    /\ ncall' = ncall + 1 /\ hist' = Log(1000 + b)
    /\ UNCHANGED <<mode, wire>>

(* ------------------------------------------ send: Design ------------------------------------------ *)
(* while total_sent < len(msg): sent = sock.send(msg[total_sent:]); 0 or error -> CommError               *)
SendChunk(k) ==
    /\ mode = "send" /\ pc = "send" /\ MayCall
    /\ k \in 1..(body - got)
    /\ wire' = wire \o [i \in 1..k |-> got + i]          \* the slice offered starts at total_sent
    /\ got' = got + k
    /\ pc' = IF got + k < body THEN "send" ELSE "done"
    /\ outcome' = IF got + k < body THEN "none" ELSE "sent"
    /\ hist' = Log(k)
    /\ UNCHANGED <<mode, body, remaining, ncall, lastEnd>>
SendZero ==
    /\ mode = "send" /\ pc = "send"
    /\ pc' = "failed" /\ outcome' = "CommError" /\ hist' = Log(0)
    /\ UNCHANGED <<mode, body, remaining, got, wire, ncall, lastEnd>>
SendErr ==
    /\ mode = "send" /\ pc = "send"
    /\ pc' = "failed" /\ outcome' = "CommError" /\ hist' = Log(-1)
    /\ UNCHANGED <<mode, body, remaining, got, wire, ncall, lastEnd>>

Next == \/ \E k \in 1..RS : RecvChunk(k)
        \/ RecvEof \/ RecvErr
        \/ \E b \in 0..MaxBody : NextRecvCall(b)
        \/ \E k \in 1..MaxMsg : SendChunk(k)
        \/ SendZero \/ SendErr
Spec == Init /\ [][Next]_vars /\ WF_vars(Next)

(* --------------------------------------------- Contract -------------------------------------------- *)
\* a frame is returned only when all of it, and nothing else, was accumulated
ExactFrame        == outcome = "frame" => (got = F /\ remaining = 0)
NoPartialReturn   == (pc = "done" /\ mode = "recv") => got = F
FailsWithCommError == pc = "failed" => outcome = "CommError"
NoForeign         == outcome # "foreign"
\* every call makes progress or ends the operation: the number of calls is bounded by the byte count
SendInOrder       == mode = "send" => wire = [i \in 1..Len(wire) |-> i]
SendComplete      == outcome = "sent" => Len(wire) = body
Terminates        == <>(pc \in {"done", "failed"})
\* action property: accumulated bytes never shrink and never exceed the frame
Monotone == [][ncall' = ncall => (got' >= got /\ got' <= IF mode = "recv" THEN F ELSE body)]_vars
\* nothing of an earlier call is carried into the next one
FreshCall == [][ncall' # ncall => (got' = 0 /\ remaining' = H + body')]_vars

(* ------------------------------------ behaviour generation (R2) ------------------------------------ *)
Terminal == pc \in {"done", "failed"} /\ (ncall = MaxCalls \/ mode = "send" \/ (pc = "failed" /\ lastEnd = "eof") \/ ~MayCall)
Emit == (Gen /\ Terminal) =>
           PrintT(<<"BEH", mode, body, hist>>)
=============================================================================
