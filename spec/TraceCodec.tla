----------------------------- MODULE TraceCodec -----------------------------
(* R3 for C06 / C07 / C08 / C16(a): every recorded encode / decode call of the real type classes is judged   *)
(* against the reference codec CipTypes.  One event per state; failures are printed with their clause.        *)
EXTENDS CipTypes, TLCExt, Json, IOUtils

TraceLog == JsonDeserialize(IOEnv.TRACE_FILE)
N == Len(TraceLog)

Raised(o)     == o.kind = "exc"
Foreign(o)    == o.kind = "exc" /\ o.data = 0
IsEmptyErr(o) == o.kind = "exc" /\ o.empty = 1

JudgeEnc(t, v, o) ==
    LET r == EncR(t, v) IN
    IF o.kind = "hang" THEN "C08:hang"
    ELSE IF Foreign(o) THEN "C08:foreign-exception"
    ELSE IF r.st = "unspec" THEN "ok"
    ELSE IF r.st = "out" THEN (IF Raised(o) THEN "ok" ELSE "C08:silent-out-of-domain")
    ELSE IF t.k = "real" /\ IsFS(v) /\ v.F = "nan"                    \* NaN payloads are not fixed: any NaN pattern
         THEN (IF o.kind = "bytes" /\ Len(o.b) = t.w /\ Dec(t, o.b).val = [F |-> "nan"] THEN "ok" ELSE "C07:bytes")
    ELSE IF o.kind = "bytes" /\ o.b = r.bytes THEN "ok" ELSE "C07:bytes"

JudgeDecR(t, r, o, unbounded) ==
    IF o.kind = "hang" THEN "C08:hang"
    ELSE IF Foreign(o) THEN "C08:foreign-exception"
    ELSE IF r.st = "unspec" THEN "ok"
    ELSE IF r.st = "ok"
         THEN (IF o.kind = "val" /\ TermEq(o.v, r.val) THEN "ok"
               ELSE IF unbounded /\ o.kind = "val" THEN "C08:unbounded-count" ELSE "C07:decode")
    ELSE IF r.st \in {"empty", "inner"} THEN (IF Raised(o) THEN "ok" ELSE "C08:silent-short")
    ELSE (IF ~Raised(o) THEN "C08:silent-short" ELSE IF IsEmptyErr(o) THEN "C08:wrong-class" ELSE "ok")

IsUnbounded(t) == t.k = "arr" /\ t.lk = "unbounded"
JudgeDec(t, b, o) == JudgeDecR(t, Dec(t, b), o, IsUnbounded(t))

\* decode(encode(v)) = normal form of v;  for derived-length arrays the documented length prefix is supplied
JudgeRt(e) ==
    LET r == EncR(e.t, e.v) IN
    IF r.st # "in" THEN "ok"
    ELSE LET pre == IF e.t.k = "arr" /\ e.t.lk = "derived"
                    THEN Enc(e.t.lt, MkI(SmallToBig(IF e.t.el.k = "bits" THEN Len(e.v.l) \div (8 * e.t.el.w) ELSE Len(e.v.l)))) ELSE <<>>
             d == Dec(e.t, pre \o r.bytes)
         IN IF d.st # "ok" THEN (IF pre \o r.bytes = <<>> THEN "ok"          \* a non-empty value of zero-size elements encodes to nothing: no round trip to demand
                                 ELSE "MACHINERY:reference-roundtrip")
            ELSE IF e.out.kind = "val" /\ TermEq(e.out.v, d.val) THEN "ok" ELSE "C06:roundtrip"

\* decoding from a stream consumes exactly the encoded bytes and yields the same value
JudgeStream(e) ==
    LET d == Dec(e.t, e.b) IN
    IF d.st # "ok" THEN "ok"
    ELSE IF e.out.kind = "val" /\ TermEq(e.out.v, d.val) /\ e.out.pos = d.p - 1 THEN "ok" ELSE "C06:consumed"

JudgeDictPos(e) ==
    LET r == EncR(e.t, e.vd) IN
    IF r.st # "in" THEN "ok"
    ELSE IF e.outd.kind = "bytes" /\ e.outl.kind = "bytes" /\ e.outd.b = e.outl.b /\ e.outd.b = r.bytes THEN "ok"
    ELSE "C06:dict-positional"

\* "each documented CIP type code maps to the type of that width": the descriptor comes from the reference table
JudgeCode(e) ==
    LET t == CodeType(e.code) IN
    IF t.k = "none" THEN "ok"
    ELSE IF e.sub = "absent" THEN "C07:code"
    ELSE LET v == IF e.sub = "enc" THEN JudgeEnc(t, e.v, e.out) ELSE JudgeDec(t, e.b, e.out)
         IN IF v = "ok" THEN "ok" ELSE "C07:code"

Judge(e) ==
    CASE e.op = "enc"      -> JudgeEnc(e.t, e.v, e.out)
      [] e.op = "dec"      -> JudgeDec(e.t, e.b, e.out)
      [] e.op = "rt"       -> JudgeRt(e)
      [] e.op = "stream"   -> JudgeStream(e)
      [] e.op = "dictpos"  -> JudgeDictPos(e)
      [] e.op = "code"     -> JudgeCode(e)
      [] OTHER             -> "MACHINERY:unknown-op"

VARIABLE i
Init == i = 1
Next == /\ i <= N
        /\ LET v == Judge(TraceLog[i]) IN IF v = "ok" THEN TRUE ELSE PrintT(<<"FAIL", i, v>>)
        /\ i' = i + 1
Spec == Init /\ [][Next]_i
AllJudged == TLCGet("stats").diameter - 1 = N
=============================================================================
