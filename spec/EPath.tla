------------------------------- MODULE EPath -------------------------------
(* CIP padded EPATH (Vol 1, appendix C-1): segment constructors, canonical encoder, STRICT parser.          *)
(* Segments (records, field k):                                                                             *)
(*   [k:"log", lt:"class"|"instance"|"member"|"cpoint"|"attr"|"special"|"service", v: big integer]          *)
(*   [k:"sym", name: code points]              ANSI extended symbol segment 0x91                            *)
(*   [k:"port", port: 1..14, link: bytes]      port segment; a 1-byte link is a slot/node number,           *)
(*                                             a longer link is the extended link address (e.g. IP text)    *)
(*   [k:"data", b: bytes]                      simple data segment 0x80 (even number of bytes)              *)
EXTENDS Bytes, TLC

LogTypeOf(n) == CASE n = 0 -> "class" [] n = 1 -> "instance" [] n = 2 -> "member" [] n = 3 -> "cpoint"
                  [] n = 4 -> "attr" [] n = 5 -> "special" [] n = 6 -> "service" [] OTHER -> "reserved"
LogTypeNum(s) == CASE s = "class" -> 0 [] s = "instance" -> 1 [] s = "member" -> 2 [] s = "cpoint" -> 3
                   [] s = "attr" -> 4 [] s = "special" -> 5 [] s = "service" -> 6

Log(lt, big)  == [k |-> "log", lt |-> lt, v |-> big]
Sym(name)     == [k |-> "sym", name |-> name]
Port(p, link) == [k |-> "port", port |-> p, link |-> link]
Data(b)       == [k |-> "data", b |-> b]

(* ---------------------------------------- canonical encoder ---------------------------------------- *)
EncSeg(s) ==
    CASE s.k = "log" ->
           LET n == Len(Mag(s.v))  base == 32 + 4 * LogTypeNum(s.lt) IN
           IF n = 1 THEN <<base, Mag(s.v)[1]>>
           ELSE IF n = 2 THEN <<base + 1, 0>> \o BigToLE(s.v, 2)
           ELSE <<base + 2, 0>> \o BigToLE(s.v, 4)
      [] s.k = "sym" -> <<145, Len(s.name)>> \o s.name \o (IF Len(s.name) % 2 = 1 THEN <<0>> ELSE <<>>)
      [] s.k = "port" ->
           IF Len(s.link) = 1 THEN <<s.port, s.link[1]>>
           ELSE <<16 + s.port, Len(s.link)>> \o s.link \o (IF Len(s.link) % 2 = 1 THEN <<0>> ELSE <<>>)
      [] s.k = "data" -> <<128, Len(s.b) \div 2>> \o s.b
Canon(segs) == FlattenSeq([i \in 1..Len(segs) |-> EncSeg(segs[i])])
Sized(path, padlen) == <<Len(path) \div 2>> \o (IF padlen THEN <<0>> ELSE <<>>) \o path

(* ------------------------------------------- strict parser ------------------------------------------- *)
(* ParsePadded(b) = [ok, segs, why]: ok only if b is a concatenation of well-formed padded segments:        *)
(* even total length, pad bytes zero, no reserved format / type bits, lengths inside the buffer.             *)
PBad(why) == [ok |-> FALSE, segs |-> <<>>, why |-> why]
RECURSIVE ParseFrom(_, _)
ParseFrom(b, p) ==
    IF p > Len(b) THEN [ok |-> TRUE, segs |-> <<>>, why |-> ""]
    ELSE LET h == b[p]  st == h \div 32 IN
    IF st = 1 THEN                                                       \* logical segment
        LET lt == (h \div 4) % 8   fmt == h % 4 IN
        IF LogTypeOf(lt) = "reserved" THEN PBad("reserved logical type")
        ELSE IF fmt = 3 THEN PBad("reserved logical format 0b11")
        ELSE IF fmt = 0 THEN
             (IF p + 1 > Len(b) THEN PBad("logical segment cut")
              ELSE LET r == ParseFrom(b, p + 2) IN
                   IF r.ok THEN [ok |-> TRUE, segs |-> <<Log(LogTypeOf(lt), LEToBig(<<b[p + 1]>>, FALSE))>> \o r.segs, why |-> ""] ELSE r)
        ELSE LET w == IF fmt = 1 THEN 2 ELSE 4 IN
             IF p + 1 + w > Len(b) THEN PBad("logical segment cut")
             ELSE IF b[p + 1] # 0 THEN PBad("logical pad byte not zero")
             ELSE LET r == ParseFrom(b, p + 2 + w) IN
                  IF r.ok THEN [ok |-> TRUE, segs |-> <<Log(LogTypeOf(lt), LEToBig(SubSeq(b, p + 2, p + 1 + w), FALSE))>> \o r.segs, why |-> ""] ELSE r
    ELSE IF st = 0 THEN                                                  \* port segment
        LET ext == BitOf(h, 4) = 1   port == h % 16 IN
        IF port = 0 THEN PBad("reserved port 0")
        ELSE IF port = 15 THEN PBad("extended port identifier not supported here")
        ELSE IF ~ext THEN
             (IF p + 1 > Len(b) THEN PBad("port segment cut")
              ELSE LET r == ParseFrom(b, p + 2) IN
                   IF r.ok THEN [ok |-> TRUE, segs |-> <<Port(port, <<b[p + 1]>>)>> \o r.segs, why |-> ""] ELSE r)
        ELSE IF p + 1 > Len(b) THEN PBad("port segment cut")
        ELSE LET n == b[p + 1]  pad == n % 2 IN
             IF n < 2 THEN PBad("extended link of length < 2")
             ELSE IF p + 1 + n + pad > Len(b) THEN PBad("extended link cut")
             ELSE IF pad = 1 /\ b[p + 2 + n] # 0 THEN PBad("port pad byte not zero")
             ELSE LET r == ParseFrom(b, p + 2 + n + pad) IN
                  IF r.ok THEN [ok |-> TRUE, segs |-> <<Port(port, SubSeq(b, p + 2, p + 1 + n))>> \o r.segs, why |-> ""] ELSE r
    ELSE IF h = 145 THEN                                                 \* ANSI extended symbol
        (IF p + 1 > Len(b) THEN PBad("symbol segment cut")
         ELSE LET n == b[p + 1]  pad == n % 2 IN
              IF n = 0 THEN PBad("empty symbol")
              ELSE IF p + 1 + n + pad > Len(b) THEN PBad("symbol cut")
              ELSE IF pad = 1 /\ b[p + 2 + n] # 0 THEN PBad("symbol pad byte not zero")
              ELSE LET r == ParseFrom(b, p + 2 + n + pad) IN
                   IF r.ok THEN [ok |-> TRUE, segs |-> <<Sym(SubSeq(b, p + 2, p + 1 + n))>> \o r.segs, why |-> ""] ELSE r)
    ELSE IF h = 128 THEN                                                 \* simple data segment
        (IF p + 1 > Len(b) THEN PBad("data segment cut")
         ELSE LET n == 2 * b[p + 1] IN
              IF p + 1 + n > Len(b) THEN PBad("data segment cut")
              ELSE LET r == ParseFrom(b, p + 2 + n) IN
                   IF r.ok THEN [ok |-> TRUE, segs |-> <<Data(SubSeq(b, p + 2, p + 1 + n))>> \o r.segs, why |-> ""] ELSE r)
    ELSE PBad("unsupported segment type")

ParsePadded(b) == IF Len(b) % 2 = 1 THEN PBad("odd length") ELSE ParseFrom(b, 1)

\* a path preceded by its size in words (and an optional reserved byte): [ok, segs, why, used]
ParseSized(b, padlen) ==
    LET hdr == IF padlen THEN 2 ELSE 1 IN
    IF Len(b) < hdr THEN PBad("no size byte")
    ELSE IF padlen /\ b[2] # 0 THEN PBad("reserved byte after size not zero")
    ELSE IF Len(b) - hdr # 2 * b[1] THEN PBad("word count does not match path length")
    ELSE ParsePadded(SubSeq(b, hdr + 1, Len(b)))
\* the same when more bytes follow: returns the parse and the position after the path
ParseSizedPrefix(b, p, padlen) ==
    LET hdr == IF padlen THEN 2 ELSE 1 IN
    IF p + hdr - 1 > Len(b) THEN [ok |-> FALSE, segs |-> <<>>, why |-> "no size byte", next |-> p]
    ELSE LET n == 2 * b[p] IN
         IF padlen /\ b[p + 1] # 0 THEN [ok |-> FALSE, segs |-> <<>>, why |-> "reserved byte after size not zero", next |-> p]
         ELSE IF p + hdr - 1 + n > Len(b) THEN [ok |-> FALSE, segs |-> <<>>, why |-> "path longer than message", next |-> p]
         ELSE LET r == ParsePadded(SubSeq(b, p + hdr, p + hdr - 1 + n))
              IN [ok |-> r.ok, segs |-> r.segs, why |-> r.why, next |-> p + hdr + n]

\* meaning: segment lists are equal when kinds and numbers / names / links agree (the format width is free)
SegEq(a, b) ==
    /\ a.k = b.k
    /\ CASE a.k = "log" -> a.lt = b.lt /\ a.v = b.v
         [] a.k = "sym" -> a.name = b.name
         [] a.k = "port" -> a.port = b.port /\ a.link = b.link
         [] a.k = "data" -> a.b = b.b
SegsEq(x, y) == Len(x) = Len(y) /\ \A i \in 1..Len(x) : SegEq(x[i], y[i])
=============================================================================
