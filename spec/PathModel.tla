------------------------------ MODULE PathModel ------------------------------
(* R1 for C09 / C15: the strict parser inverts the canonical encoder on every short segment list over       *)
(* boundary values, and rejects the typical malformations; all spellings of a connection path agree.         *)
EXTENDS ConnPath

B(n) == SmallToBig(n)
Max32 == <<0, 255, 255, 255, 255>>
LogVals == {B(0), B(1), B(255), B(256), B(65535), B(65536), Max32}
LogSegs == {Log(lt, v) : lt \in {"class", "instance", "member", "attr"}, v \in LogVals}
SymSegs == {Sym(n) : n \in {<<65>>, <<65, 66>>, <<97, 98, 99>>, <<80, 114, 111, 103, 114, 97, 109, 58, 77>>}}
PortSegs == {Port(p, l) : p \in {1, 2, 14}, l \in {<<0>>, <<255>>, <<49, 46, 50, 46, 51, 46, 52>>, <<49, 48, 46, 48, 46, 48, 46, 49>>}}
Segs == LogSegs \cup SymSegs \cup PortSegs \cup {Data(<<1, 2>>)}

CONSTANT MaxLen
VARIABLE path
Init == path \in UNION {[1..n -> Segs] : n \in 0..MaxLen}
Next == UNCHANGED path
Spec == Init /\ [][Next]_path

Wire == Canon(path)
RoundTrip == LET r == ParsePadded(Wire) IN r.ok /\ SegsEq(r.segs, path)
EvenLength == Len(Wire) % 2 = 0
SizedRoundTrip == \A pl \in BOOLEAN : LET r == ParseSized(Sized(Wire, pl), pl) IN r.ok /\ SegsEq(r.segs, path)
\* malformations of an otherwise valid path are rejected
WrongCountRejected == Len(Wire) > 0 => ~ParseSized(<<(Len(Wire) \div 2) + 1>> \o Wire, FALSE).ok
OddRejected == Len(Wire) > 0 => ~ParsePadded(SubSeq(Wire, 1, Len(Wire) - 1)).ok
PadAndFormatStrict ==
    \A i \in 1..Len(path) :
        (path[i].k = "log" /\ Len(Mag(path[i].v)) > 1) =>
            LET pre == Canon(SubSeq(path, 1, i - 1))   seg == EncSeg(path[i])   post == Canon(SubSeq(path, i + 1, Len(path)))
                badpad == pre \o <<seg[1], 1>> \o SubSeq(seg, 3, Len(seg)) \o post
                badfmt == pre \o <<(seg[1] - (seg[1] % 4)) + 3>> \o SubSeq(seg, 2, Len(seg)) \o post
            IN ~ParsePadded(badpad).ok /\ ~ParsePadded(badfmt).ok
==============================================================================
