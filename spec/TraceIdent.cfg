SPECIFICATION Spec
POSTCONDITION AllJudged
CHECK_DEADLOCK FALSE
