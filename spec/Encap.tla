------------------------------- MODULE Encap -------------------------------
(* EtherNet/IP encapsulation (CIP Vol 2, ch. 2) and common packet format: STRICT frame parser + reply builders. *)
(* Handles, connection ids and contexts are byte sequences (they exceed 31 bits).                                *)
EXTENDS Bytes, TLC

CmdRegister   == 101   \* 0x65
CmdUnregister == 102   \* 0x66
CmdListId     == 99    \* 0x63
CmdRRData     == 111   \* 0x6F
CmdUnitData   == 112   \* 0x70
KnownCmd(c) == c \in {CmdRegister, CmdUnregister, CmdListId, CmdRRData, CmdUnitData}

Header(cmd, len, handle, status4, ctx) == LE(cmd, 2) \o LE(len, 2) \o handle \o status4 \o ctx \o Zeros(4)

(* ParseFrame(b) = [ok, why, cmd, handle, ctx, kind, cid, item]                                                  *)
(*   why names the violated C11 clause; kind "register" | "unregister" | "listid" | "rr" | "unit";               *)
(*   item = the unconnected / connected data item contents (for "unit": sequence count + message)                *)
PF(ok, why, cmd, handle, ctx, kind, cid, item) ==
    [ok |-> ok, why |-> why, cmd |-> cmd, handle |-> handle, ctx |-> ctx, kind |-> kind, cid |-> cid, item |-> item]
BadFrame(why) == PF(FALSE, why, 0, <<>>, <<>>, "", <<>>, <<>>)

ParseFrame(b) ==
    IF Len(b) < 24 THEN BadFrame("C11:framing")
    ELSE LET cmd == U16(b, 1)  len == U16(b, 3)  handle == SubSeq(b, 5, 8)  status == SubSeq(b, 9, 12)
             ctx == SubSeq(b, 13, 20)  opts == SubSeq(b, 21, 24)  body == SubSeq(b, 25, Len(b)) IN
    IF len # Len(b) - 24 THEN BadFrame("C11:length")
    ELSE IF ~KnownCmd(cmd) THEN BadFrame("C11:command")
    ELSE IF ~AllZero(status) \/ ~AllZero(opts) THEN BadFrame("C11:status-options")
    ELSE IF cmd = CmdRegister THEN
         (IF body = <<1, 0, 0, 0>> THEN PF(TRUE, "", cmd, handle, ctx, "register", <<>>, <<>>) ELSE BadFrame("C11:register-body"))
    ELSE IF cmd = CmdUnregister THEN
         (IF body = <<>> THEN PF(TRUE, "", cmd, handle, ctx, "unregister", <<>>, <<>>) ELSE BadFrame("C11:framing"))
    ELSE IF cmd = CmdListId THEN
         (IF body = <<>> THEN PF(TRUE, "", cmd, handle, ctx, "listid", <<>>, <<>>) ELSE BadFrame("C11:framing"))
    ELSE \* SendRRData / SendUnitData: interface handle 0, timeout, 2 items
    IF Len(body) < 16 THEN BadFrame("C11:cpf-count")
    ELSE IF ~AllZero(SubSeq(body, 1, 4)) THEN BadFrame("C11:interface")
    ELSE IF U16(body, 7) # 2 THEN BadFrame("C11:cpf-count")
    ELSE LET atype == U16(body, 9)  alen == U16(body, 11) IN
    IF cmd = CmdRRData THEN
         (IF atype # 0 \/ alen # 0 THEN BadFrame("C11:addr-item")
          ELSE IF U16(body, 13) # 178 THEN BadFrame("C11:data-item-type")
          ELSE IF U16(body, 15) # Len(body) - 16 THEN BadFrame("C11:data-item-length")
          ELSE PF(TRUE, "", cmd, handle, ctx, "rr", <<>>, SubSeq(body, 17, Len(body))))
    ELSE (IF atype # 161 \/ alen # 4 \/ Len(body) < 20 THEN BadFrame("C11:addr-item")
          ELSE IF U16(body, 17) # 177 THEN BadFrame("C11:data-item-type")
          ELSE IF U16(body, 19) # Len(body) - 20 THEN BadFrame("C11:data-item-length")
          ELSE IF Len(body) - 20 < 2 THEN BadFrame("C11:data-item-length")
          ELSE PF(TRUE, "", cmd, handle, ctx, "unit", SubSeq(body, 13, 16), SubSeq(body, 21, Len(body))))

\* reply frames as a conforming target builds them
RRReply(handle, ctx, mr) ==
    LET cpf == Zeros(4) \o LE(0, 2) \o LE(2, 2) \o LE(0, 2) \o LE(0, 2) \o LE(178, 2) \o LE(Len(mr), 2) \o mr
    IN Header(CmdRRData, Len(cpf), handle, Zeros(4), ctx) \o cpf
UnitReply(handle, ctx, tocid, seq2, mr) ==
    LET cpf == Zeros(4) \o LE(0, 2) \o LE(2, 2) \o LE(161, 2) \o LE(4, 2) \o tocid \o LE(177, 2) \o LE(2 + Len(mr), 2) \o seq2 \o mr
    IN Header(CmdUnitData, Len(cpf), handle, Zeros(4), ctx) \o cpf
ErrorReply(cmd, handle, ctx, status) == Header(cmd, 0, handle, LE(status, 4), ctx)

(* ------------------------- message router (CIP Vol 1, 2-4) ------------------------- *)
\* request: service, path size (words), path, data
MRParse(mr) ==
    IF Len(mr) < 2 THEN [ok |-> FALSE, svc |-> 0, path |-> <<>>, data |-> <<>>]
    ELSE LET n == 2 * mr[2] IN
         IF 2 + n > Len(mr) THEN [ok |-> FALSE, svc |-> mr[1], path |-> <<>>, data |-> <<>>]
         ELSE [ok |-> TRUE, svc |-> mr[1], path |-> SubSeq(mr, 3, 2 + n), data |-> SubSeq(mr, 3 + n, Len(mr))]
\* reply: service | 0x80, reserved, general status, size of additional status (words), additional status, data
MRReply(svc, status, ext, data) ==
    <<(svc % 128) + 128, 0, status, Len(ext)>> \o FlattenSeq([i \in 1..Len(ext) |-> LE(ext[i], 2)]) \o data
\* parse a reply: [ok, svc, status, ext, data]
MRReplyParse(r) ==
    IF Len(r) < 4 THEN [ok |-> FALSE, svc |-> 0, status |-> 0, ext |-> <<>>, data |-> <<>>]
    ELSE LET n == r[4] IN
         IF 4 + 2 * n > Len(r) THEN [ok |-> FALSE, svc |-> r[1], status |-> r[3], ext |-> <<>>, data |-> <<>>]
         ELSE [ok |-> TRUE, svc |-> r[1], status |-> r[3], ext |-> [i \in 1..n |-> U16(r, 3 + 2 * i)], data |-> SubSeq(r, 5 + 2 * n, Len(r))]
=============================================================================
