SPECIFICATION Spec
CONSTANTS N = 2  MaxOps = 1  MaxK = 2  MemberTakes = 0  FragPre = 1  SlcPre = 1
INVARIANT ClosedFormsAgree
CHECK_DEADLOCK FALSE
