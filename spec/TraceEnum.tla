------------------------------ MODULE TraceEnum ------------------------------
(* R3 for C19 (and the truth table of C03:truthiness): every recorded lookup on every exported code   *)
(* table must be a lookup the EnumMap semantics allows.  One event per state; failures are printed.    *)
EXTENDS EnumMap, TLC, TLCExt, Json, IOUtils

TraceLog == JsonDeserialize(IOEnv.TRACE_FILE)
Tables   == TraceLog.tables
Events   == TraceLog.events
N        == Len(Events)

Judge(e) ==
    LET T == Tables[e.table] IN
    CASE e.op = "getitem"    -> IF LookupOk(T, e.key, e.out) THEN "ok"
                                ELSE IF e.key.isstr /\ ByName(T, e.key) # {} THEN "C19:name->code" ELSE "C19:code->name"
      [] e.op = "get"        -> IF LookupOk(T, e.key, e.out) THEN "ok" ELSE "C19:get"
      [] e.op = "contains"   -> IF ContainsOk(T, e.key, e.out) THEN "ok" ELSE "C19:contains"
      [] e.op = "from_reply" -> IF FromReplyOk(T, e.tok, e.out) THEN "ok" ELSE "C19:from-reply"
      [] e.op = "type_code"  -> IF TypeOfCodeOk(T, e.tok, e.out) THEN "ok" ELSE "C19:type-code"
      [] e.op = "status"     -> IF ~StatusTextOk(e.n, e.has = 1, e.ttext, e.text) THEN "C19:status-text"
                                ELSE IF ~StatusMeaningOk(e.n, e.text) THEN "C19:status-meaning" ELSE "ok"
      [] e.op = "ext"        -> IF ExtTextOk(e.ttext, e.text) THEN "ok" ELSE "C19:status-text"
      [] e.op = "truth"      -> IF (e.out = 1) = (e.value_none = 0 /\ e.error_none = 1) THEN "ok" ELSE "C03:truthiness"
      [] OTHER               -> "MACHINERY:unknown-op"

VARIABLE i
Init == i = 1
Next == /\ i <= N
        /\ LET v == Judge(Events[i]) IN IF v = "ok" THEN TRUE ELSE PrintT(<<"FAIL", i, v>>)
        /\ i' = i + 1
Spec == Init /\ [][Next]_i
AllJudged == TLCGet("stats").diameter - 1 = N
==============================================================================
