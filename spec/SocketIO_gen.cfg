SPECIFICATION Spec
CONSTANTS H = 24  LenAt = 4  RS = 256  MaxBody = 3  MaxMsg = 6  MaxCalls = 1  GenChunks = {}  MaxParts = 3  Gen = TRUE
INVARIANT Emit
CHECK_DEADLOCK FALSE
