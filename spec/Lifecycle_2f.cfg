SPECIFICATION Spec
CONSTANTS MaxCalls = 5  MaxIO = 10  TwoFaults = TRUE  MaxPolicyChanges = 0  Gen = FALSE  FreshTriad = TRUE
INVARIANT NoViolation
INVARIANT OnlyLibraryFailures
INVARIANT CloseResetsNoHist
INVARIANT ConnectedMeansOpen
INVARIANT FallbackOrderAndSize
PROPERTY Terminates
CHECK_DEADLOCK FALSE
