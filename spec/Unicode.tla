------------------------------ MODULE Unicode ------------------------------
(* Text as sequences of code points; the encodings the CIP string types use.                              *)
EXTENDS Bytes

IsSurrogate(c) == c >= 55296 /\ c <= 57343
IsScalar(c)    == c >= 0 /\ c <= 1114111 /\ ~IsSurrogate(c)

\* ---- ISO-8859-1 ----
Latin1Ok(s)  == \A i \in 1..Len(s) : s[i] >= 0 /\ s[i] <= 255
Latin1Enc(s) == s
Latin1Dec(b) == b

\* ---- UTF-16-LE ----
U16Units(c) == IF c < 65536 THEN <<c>>
               ELSE LET v == c - 65536 IN <<55296 + (v \div 1024), 56320 + (v % 1024)>>
Utf16Ok(s)  == \A i \in 1..Len(s) : IsScalar(s[i])
Utf16Enc(s) == FlattenSeq([i \in 1..Len(s) |-> FlattenSeq([j \in 1..Len(U16Units(s[i])) |->
                      <<U16Units(s[i])[j] % 256, U16Units(s[i])[j] \div 256>>])])
\* decoder over 16-bit units: [ok, cps]
RECURSIVE U16DecUnits(_, _)
U16DecUnits(u, p) ==
    IF p > Len(u) THEN [ok |-> TRUE, cps |-> <<>>]
    ELSE IF u[p] >= 55296 /\ u[p] <= 56319                      \* high surrogate
         THEN IF p + 1 <= Len(u) /\ u[p + 1] >= 56320 /\ u[p + 1] <= 57343
              THEN LET r == U16DecUnits(u, p + 2)
                   IN [ok |-> r.ok, cps |-> <<65536 + (u[p] - 55296) * 1024 + (u[p + 1] - 56320)>> \o r.cps]
              ELSE [ok |-> FALSE, cps |-> <<>>]
         ELSE IF u[p] >= 56320 /\ u[p] <= 57343 THEN [ok |-> FALSE, cps |-> <<>>]
         ELSE LET r == U16DecUnits(u, p + 1) IN [ok |-> r.ok, cps |-> <<u[p]>> \o r.cps]
Utf16Dec(b) == IF Len(b) % 2 = 1 THEN [ok |-> FALSE, cps |-> <<>>]
               ELSE U16DecUnits([i \in 1..(Len(b) \div 2) |-> b[2 * i - 1] + 256 * b[2 * i]], 1)

\* ---- UTF-32-LE ----
Utf32Enc(s) == FlattenSeq([i \in 1..Len(s) |-> <<s[i] % 256, (s[i] \div 256) % 256, (s[i] \div 65536) % 256, 0>>])
Utf32Dec(b) == IF Len(b) % 4 # 0 THEN [ok |-> FALSE, cps |-> <<>>]
               ELSE LET cps == [i \in 1..(Len(b) \div 4) |-> IF b[4 * i] # 0 THEN 1114112
                                                           ELSE b[4 * i - 3] + 256 * b[4 * i - 2] + 65536 * b[4 * i - 1]]
                    IN [ok |-> \A i \in 1..Len(cps) : IsScalar(cps[i]), cps |-> cps]

\* ---- ASCII subset of UTF-8 (the only part of the 1-byte STRINGN form whose lengths agree) ----
AsciiOk(s) == \A i \in 1..Len(s) : s[i] >= 0 /\ s[i] <= 127
=============================================================================
