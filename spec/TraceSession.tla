---------------------------- MODULE TraceSession ----------------------------
(* R3 for the session properties (C01-C05, C10, C11, C13, C14, C16b, C17): a recorded execution of a real        *)
(* driver against the reference target is accepted iff it is a behaviour of this specification.                  *)
(* One state per consumed event; Step is total: it yields the next model state or the name of the violated        *)
(* clause ("Cxx:<clause>" = the implementation broke the contract, "MACHINERY:<what>" = the harness did).          *)
EXTENDS EipTarget, LogixView, IdentityView, SlcTarget, TLCExt, Json, IOUtils

TraceLog == JsonDeserialize(IOEnv.TRACE_FILE)
NTraces  == Len(TraceLog)

Has(r, f) == f \in DOMAIN r
Opt(r, f, d) == IF f \in DOMAIN r THEN r[f] ELSE d

NoPend == [kind |-> "none", bytes |-> <<>>, tell |-> [k |-> "none"]]

InitModel(cfg) ==
    [ policy   |-> cfg.target.policy,
      cfgsize  |-> Opt(cfg.driver, "size", 4000),
      extended |-> Opt(cfg.driver, "extended", 1) = 1,
      kind     |-> cfg.driver.kind,
      host     |-> Opt(cfg.driver, "host", <<>>),                \* host / TCP port the path string denotes (C15), when the scenario states them
      port     |-> Opt(cfg.driver, "port", 0),
      ident    |-> Opt(cfg.target, "identity", [none |-> 1]),
      clock    |-> Opt(cfg.target, "clock_b", Zeros(8)),
      hasclock |-> Has(cfg.target, "clock_b"),
      route    |-> Opt(cfg.driver, "route", <<>>),                \* the route the driver's path denotes (port segments)
      sessions |-> {},
      conns    |-> <<>>,                                         \* sequence of [cid, size, sess, lastSeq, lastReply, serial, tocid]
      alive    |-> TRUE,
      dHandle  |-> <<>>,                                         \* handle the driver was told in this TCP connection
      oldSerials |-> {},                                         \* serial number triads of connections the target still held when the driver returned from close()
      dConns   |-> {},                                           \* connection ids the driver was told about
      largeRefused |-> FALSE,
      pend     |-> NoPend,
      call     |-> [api |-> "none", intent |-> [none |-> 1]],
      ntx |-> 0, corrupted |-> FALSE, corrEncap |-> FALSE, dupTold |-> FALSE,                            \* frames sent in the current call; one of its replies was corrupted
      nIntent  |-> 0,                                            \* frames of the current call that carry its intent
      last     |-> [k |-> "none"],                               \* what the target answered to the intent frame
      inClose  |-> FALSE,
      closeFault |-> FALSE,
      everFault |-> FALSE,
      closedOnce |-> FALSE,
      texts    |-> Opt(cfg, "status_texts", <<>>),
      exttexts |-> Opt(cfg, "ext_texts", <<>>),                  \* <<status, extended status, text>> triples the library knows
      slc      |-> Opt(cfg, "slc", <<>>),
      hasslc   |-> Has(cfg, "slc"),
      slcPre   |-> Opt(cfg, "slc", <<>>),
      slcIdx   |-> 0,
      lx       |-> LxInit(cfg) ]

Good(m2)   == [m |-> m2, fail |-> ""]
Bad(m, c)  == [m |-> m, fail |-> c]

ConnIdx(m, cid) == {i \in 1..Len(m.conns) : m.conns[i].cid = cid}
HasConn(m, cid) == ConnIdx(m, cid) # {}
ConnOf(m, cid)  == m.conns[CHOOSE i \in ConnIdx(m, cid) : TRUE]
SetConn(m, cid, c) == [i \in 1..Len(m.conns) |-> IF m.conns[i].cid = cid THEN c ELSE m.conns[i]]

IsInfra(api) == api \in {"open", "close", "enter", "exit"}

(* ------------------------------------------------------------------------------------------------------------ *)
(* Generic-message intent (C14) against the frame that carries it.                                               *)
(* intent = [service, cls, inst, attr (big or <<>>), data, connected, ucsend, route (bytes of the sized route or   *)
(*           <<>>), hasroute]                                                                                     *)
IntentPath(it) == <<Log("class", it.cls), Log("instance", it.inst)>> \o (IF it.attr = <<>> THEN <<>> ELSE <<Log("attr", it.attr)>>)
CheckGeneric(it, kind, viaUcs, svc, segs, data, routeSegs) ==
    IF (it.connected = 1) # (kind = "unit") THEN "C14:transport"
    ELSE IF it.connected = 0 /\ (it.ucsend = 1) # viaUcs THEN "C14:transport"
    ELSE IF svc # it.service THEN "C14:service"
    ELSE IF ~SegsEq(segs, IntentPath(it)) THEN "C14:path"
    ELSE IF it.connected = 1 \/ viaUcs THEN
         (IF data # it.data THEN "C14:data"
          ELSE IF viaUcs /\ it.hasroute = 1 /\ ~SegsEq(routeSegs, it.routesegs)
               THEN (IF Opt(it, "cfgroute", 0) = 1 THEN "C14:route+C15:route-in-message+C09:route-meaning" ELSE "C14:route")   \* route_path=True: the configured route
          ELSE "")
    ELSE \* direct UCMM: the encoded route (size, reserved, segments) follows the request data by design
         IF it.hasroute = 0 THEN (IF data = it.data THEN "" ELSE "C14:data")
         ELSE IF Len(data) < Len(it.data) \/ SubSeq(data, 1, Len(it.data)) # it.data THEN "C14:data"
         ELSE LET r == ParseSized(SubSeq(data, Len(it.data) + 1, Len(data)), TRUE) IN
              IF r.ok /\ SegsEq(r.segs, it.routesegs) THEN "" ELSE "C14:route"

(* ------------------------------------------------------------------------------------------------------------ *)
(* SLC (C18): the k-th PCCC request of a read / write call against the k-th address of the call.                    *)
SlcEncWords(ty, v) ==
    CASE ty \in {"N", "B", "S", "I", "O", "T", "C"} -> IF IsI(v) /\ FitsSigned(v.i, 2) THEN <<U16(BigToLE(v.i, 2), 1)>> ELSE <<>>
      [] ty = "L" -> IF IsI(v) /\ FitsSigned(v.i, 4) THEN LET b == BigToLE(v.i, 4) IN <<U16(b, 1), U16(b, 3)>> ELSE <<>>
      [] ty = "F" -> IF IsF(v) \/ IsFS(v) THEN LET r == F32Enc(v) IN IF r.ok THEN <<U16(r.bytes, 1), U16(r.bytes, 3)>> ELSE <<>> ELSE <<>>
SlcValueWords(a) ==
    IF a.count = 1 THEN SlcEncWords(a.ftype, a.value)
    ELSE IF ~IsL(a.value) \/ Len(a.value.l) < a.count THEN <<>>
    ELSE FlattenSeq([j \in 1..a.count |-> SlcEncWords(a.ftype, a.value.l[j])])
SlcTxClause(m, q, kind) ==
    LET items == m.call.intent.items  k == m.slcIdx + 1 IN
    IF kind # "unit" THEN "C18:transport"
    ELSE IF k > Len(items) THEN "C18:extra-request"
    ELSE LET a == items[k]  ew == ElemWords(a.ftype) IN
    IF a.valid = 0 THEN "C18:accepted-invalid"
    ELSE IF q.cmd # 15 \/ q.fnc # (IF m.call.api = "read" THEN 162 ELSE 171) THEN "C18:function"
    ELSE IF q.file # a.file \/ q.ftype # TypeCode(a.ftype) THEN "C18:file"
    ELSE IF q.elem # a.elem THEN "C18:element"
    ELSE IF q.sub # a.pos THEN "C18:sub-element"
    ELSE IF m.call.api = "read" THEN (IF q.size # 2 * ew * a.count THEN "C18:size" ELSE "")
    ELSE IF a.bit >= 0 THEN
         (IF q.size # 2 THEN "C18:size"
          ELSE IF Len(q.rest) # 4 THEN "C18:data"
          ELSE IF U16(q.rest, 1) # 2 ^ a.bit THEN "C18:mask+C18:bit"
          ELSE IF U16(q.rest, 3) # (IF Truthy(a.value) THEN 2 ^ a.bit ELSE 0) THEN "C18:data" ELSE "")
    ELSE IF q.size # 2 * ew * a.count THEN "C18:size"
    ELSE IF Len(q.rest) # 2 + q.size THEN "C18:data"
    ELSE IF U16(q.rest, 1) # 65535 THEN "C18:mask"
    ELSE IF [j \in 1..(ew * a.count) |-> U16(q.rest, 1 + 2 * j)] # SlcValueWords(a) THEN "C18:data" ELSE ""

SlcApply(tab, a) ==
    LET f == FileOf(tab, a.file)  ew == ElemWords(f.type)  w0 == a.elem * ew + a.pos IN
    IF a.bit >= 0 THEN SetWords(tab, a.file, [i \in 1..Len(f.words) |-> IF i = w0 + 1
                                               THEN (IF Truthy(a.value) THEN WordOr(f.words[i], 2 ^ a.bit) ELSE WordAnd(f.words[i], 65535 - 2 ^ a.bit)) ELSE f.words[i]])
    ELSE LET ws == SlcValueWords(a) IN SetWords(tab, a.file, [i \in 1..Len(f.words) |-> IF i > w0 /\ i <= w0 + Len(ws) THEN ws[i - w0] ELSE f.words[i]])
RECURSIVE SlcApplyAll(_, _, _, _)
SlcApplyAll(tab, items, tgs, i) ==
    IF i > Len(items) THEN tab
    ELSE SlcApplyAll(IF items[i].valid = 1 /\ tgs[i].truthy = 1 THEN SlcApply(tab, items[i]) ELSE tab, items, tgs, i + 1)

SlcRet(m, ev) ==
    LET items == m.call.intent.items  n == Len(items)  tgs == ev.result.tags
        anyInvalid == \E i \in 1..n : items[i].valid = 0 IN
    IF anyInvalid THEN                                                   \* an address outside the grammar / ranges: RequestError, nothing sent
        (IF ev.outcome = "exc" /\ ev.cls = "RequestError" THEN "" ELSE IF ev.outcome = "exc" THEN "C18:wrong-exception" ELSE "C18:accepted-invalid")
    ELSE IF ev.outcome # "value" THEN (IF ev.faulted = 1 THEN "" ELSE "C18:exception")
    ELSE IF Len(tgs) # n THEN "C18:count"
    ELSE IF m.call.api = "read" THEN
         LET cs == [i \in 1..n |-> LET e == SlcExpectRead(m.slc, items[i]) IN
                        IF e.cls = "absent" THEN (IF tgs[i].truthy = 1 THEN "C18:accepted-invalid" ELSE "")
                        ELSE IF tgs[i].truthy # 1 THEN "C18:readback"
                        ELSE IF TermEq(tgs[i].value, e.val) THEN "" ELSE IF items[i].bit >= 0 THEN "C18:bit+C18:readback" ELSE "C18:data+C18:readback"]
         IN IF \E i \in 1..n : cs[i] # "" THEN cs[CHOOSE i \in 1..n : cs[i] # ""] ELSE ""
    ELSE IF \E i \in 1..n : SlcExpectRead(m.slcPre, items[i]).cls = "valid" /\ tgs[i].truthy # 1 /\ (items[i].bit >= 0 \/ SlcValueWords(items[i]) # <<>>) THEN "C18:write-failed"
    ELSE IF SlcApplyAll(m.slcPre, items, tgs, 1) # m.slc THEN "C18:outside"
    ELSE ""

(* Objects behind the message router.  Returns [fail, reply, m]                                                   *)
ObjR(fail, reply, m) == [fail |-> fail, reply |-> reply, m |-> m]

Dispatch(m, svc, segs, data, cap, choice, kind, viaUcs, routeSegs) ==
    LET cls == ClassOf(segs)  inst == InstOf(segs)
        intentFrame == m.call.api = "generic"
        g == IF intentFrame THEN CheckGeneric(m.call.intent, kind, viaUcs, svc, segs, data, routeSegs) ELSE ""
        scripted == Has(choice, "script")
    IN
    IF intentFrame /\ m.nIntent >= 1 THEN ObjR("C14:sent-twice", <<>>, m)
    ELSE IF g # "" THEN ObjR(g, <<>>, m)
    ELSE LET m1 == [m EXCEPT !.nIntent = IF intentFrame THEN @ + 1 ELSE @] IN
    IF scripted THEN
        LET s == choice.script  rep == MRReply(svc, s.status, s.ext, s.data)
        IN ObjR("", rep, [m1 EXCEPT !.last = [k |-> "script", status |-> s.status, ext |-> s.ext, data |-> s.data]])
    ELSE IF LxHandles(m.lx, svc, segs) THEN
        LET r == LxService(m.lx, svc, segs, data, cap, choice, m.call) IN
        ObjR(r.fail, r.reply, [m1 EXCEPT !.lx = r.lx])
    ELSE IF cls = 103 /\ inst = 1 /\ svc = 75 /\ m.hasslc THEN
        LET x == PcccExec(m.slc, data)
            c == IF m.call.api \in {"read", "write"} /\ m.kind = "slc" THEN SlcTxClause(m, x.q, kind) ELSE "" IN
        IF ~x.ok THEN ObjR("C18:malformed-request", <<>>, m)
        ELSE IF c # "" THEN ObjR(c, <<>>, m)
        ELSE ObjR("", MRReply(svc, 0, <<>>, x.reply), [m1 EXCEPT !.slc = x.tab, !.slcIdx = @ + 1])
    ELSE IF cls = 1 /\ inst = 1 /\ svc = 1 /\ ~Has(m.ident, "none") THEN
        \* get_module_info(slot): an Unconnected Send along the configured route with its last hop replaced by backplane/slot
        IF m.call.api = "get_module_info" /\ Has(m.call.intent, "slot")
           /\ (~viaUcs \/ ~SegsEq(routeSegs, (IF m.route = <<>> THEN <<>> ELSE SubSeq(m.route, 1, Len(m.route) - 1)) \o <<Port(1, <<m.call.intent.slot>>)>>))
        THEN ObjR("C16:module-route+C14:module-route+C15:module-route+C09:route-meaning", <<>>, m)
        \* get_plc_info(): through the configured route (an Unconnected Send), whatever was asked before
        ELSE IF m.call.api = "get_plc_info" /\ viaUcs /\ ~SegsEq(routeSegs, m.route)
        THEN ObjR("C16:info-route+C14:route+C15:route-in-message+C09:route-meaning", <<>>, m)
        ELSE ObjR("", MRReply(svc, 0, <<>>, IdentityCore(m.ident)), [m1 EXCEPT !.last = [k |-> "identity"]])
    ELSE IF cls = 139 /\ inst = 1 /\ svc = 3 /\ m.hasclock THEN
        ObjR("", MRReply(svc, 0, <<>>, LE(1, 2) \o LE(11, 2) \o LE(0, 2) \o m.clock), [m1 EXCEPT !.last = [k |-> "clock"]])
    ELSE IF cls = 139 /\ inst = 1 /\ svc = 4 /\ m.hasclock THEN
        (IF Len(data) = 12 /\ U16(data, 1) = 1 /\ U16(data, 3) = 6
         THEN ObjR("", MRReply(svc, 0, <<>>, LE(1, 2) \o LE(6, 2) \o LE(0, 2)), [m1 EXCEPT !.clock = SubSeq(data, 5, 12), !.last = [k |-> "clockset"]])
         ELSE ObjR("", MRReply(svc, IF Len(data) < 12 THEN 19 ELSE 21, <<>>, <<>>), m1))
    ELSE ObjR("MACHINERY:unscripted-object", <<>>, m)

(* ------------------------------------------------------------------------------------------------------------ *)
(* One request frame.                                                                                              *)
TxStep0(m, ev) ==
    \* a connection whose size is not the one the driver packs for breaks every transfer sized between the two
    LET SizeUsers == IF m.lx.on THEN "+C01:negotiated-size+C02:negotiated-size" ELSE ""
        \* a frame the target cannot serve: the call it belongs to cannot succeed on a real target
        Undeliverable == CASE m.call.api = "read" -> (IF m.kind = "slc" THEN "+C18:request-undeliverable" ELSE "+C01:request-undeliverable+C03:request-undeliverable")
                           [] m.call.api = "write" -> (IF m.kind = "slc" THEN "+C18:request-undeliverable" ELSE "+C02:request-undeliverable+C03:request-undeliverable")
                           [] m.call.api \in {"open", "enter", "get_tag_list"} /\ m.lx.on -> "+C05:request-undeliverable"
                           [] OTHER -> ""
    IN
    IF Has(ev.choice, "incomplete") THEN Bad(m, "C11:framing")
    ELSE LET pf == ParseFrame(ev.b)  ch == ev.choice IN
    IF ~pf.ok THEN Bad(m, pf.why \o (IF m.call.api \in {"open", "enter"} THEN (IF m.closedOnce THEN "+C10:reopen" ELSE "+C10:open-failed")
                                   ELSE IF m.call.api \in {"close", "exit"} THEN "+C10:close-malformed" ELSE ""))   \* a target refuses a malformed frame: the open it belongs to cannot succeed
    ELSE IF m.pend.kind # "none" THEN Bad(m, "MACHINERY:request-while-reply-pending")
    ELSE IF pf.kind = "register" THEN
        (IF pf.handle # Zero4 THEN Bad(m, "C11:handle")
         ELSE IF m.policy = "SessionRefused"
              THEN Good([m EXCEPT !.pend = [kind |-> "reply", bytes |-> ErrorReply(CmdRegister, Zero4, pf.ctx, 105), tell |-> [k |-> "none"]]])
         ELSE IF ~Has(ch, "handle") \/ ch.handle \in m.sessions \/ ch.handle = Zero4 THEN Bad(m, "MACHINERY:choice-handle")
         ELSE Good([m EXCEPT !.sessions = @ \cup {ch.handle},
                             !.pend = [kind |-> "reply", bytes |-> Header(CmdRegister, 4, ch.handle, Zero4, pf.ctx) \o <<1, 0, 0, 0>>,
                                       tell |-> [k |-> "handle", h |-> ch.handle]]]))
    ELSE IF pf.kind = "unregister" THEN
        (IF pf.handle # m.dHandle \/ m.dHandle = <<>> THEN Bad(m, "C11:handle")
         ELSE Good([m EXCEPT !.sessions = @ \ {pf.handle}, !.dHandle = <<>>]))
    ELSE IF pf.kind = "listid" THEN
        (IF pf.handle # (IF m.dHandle = <<>> THEN Zero4 ELSE m.dHandle) THEN Bad(m, "C11:handle")
         ELSE IF Has(m.ident, "none") THEN Bad(m, "MACHINERY:no-identity")
         ELSE LET item == ListIdentityItem(m.ident)
                  body == LE(1, 2) \o LE(12, 2) \o LE(Len(item), 2) \o item
              IN Good([m EXCEPT !.pend = [kind |-> "reply", bytes |-> Header(CmdListId, Len(body), pf.handle, Zero4, pf.ctx) \o body, tell |-> [k |-> "none"]],
                                !.last = [k |-> "listidentity"]]))
    ELSE \* rr / unit
    IF pf.kind = "rr" /\ m.dHandle = <<>> /\ pf.handle = Zero4 THEN                    \* UCMM request without a session: the target refuses it
        Good([m EXCEPT !.pend = [kind |-> "reply", bytes |-> ErrorReply(CmdRRData, pf.handle, pf.ctx, 100), tell |-> [k |-> "none"]]])
    ELSE IF m.dHandle = <<>> \/ pf.handle # m.dHandle
         THEN Bad(m, IF pf.handle = Zero4 THEN "C10:no-session" ELSE IF m.dHandle = <<>> THEN "C11:handle+C10:stale-session" ELSE "C11:handle")
    ELSE IF pf.handle \notin m.sessions THEN Bad(m, "C10:no-session")
    ELSE IF pf.kind = "rr" THEN
        LET q == MRParse(pf.item) IN
        IF ~q.ok THEN Bad(m, "C14:malformed-request")
        ELSE LET pp == ParsePadded(q.path) IN
        IF ~pp.ok THEN Bad(m, "C09:parse")
        ELSE IF IsCM(pp.segs) /\ q.svc \in {84, 91} THEN                                  \* Forward Open / Large Forward Open
            LET fo == FOParse(q.svc, q.data) IN
            IF ~fo.ok \/ ~fo.exact THEN Bad(m, "C10:fo-malformed")
            ELSE LET cp == ParsePadded(fo.cpath) IN
            IF ~cp.ok THEN Bad(m, "C09:parse")
            ELSE IF ~(Len(cp.segs) >= 2 /\ SegsEq(SubSeq(cp.segs, Len(cp.segs) - 1, Len(cp.segs)), <<Seg("class", 2), Seg("instance", 1)>>)) THEN Bad(m, "C09:meaning")
            ELSE IF ~SegsEq(SubSeq(cp.segs, 1, Len(cp.segs) - 2), m.route) THEN Bad(m, "C15:route-in-forward-open+C09:route-meaning")
            ELSE IF fo.large /\ ~m.extended THEN Bad(m, "C10:fo-order")
            ELSE IF ~fo.large /\ m.extended /\ ~m.largeRefused THEN Bad(m, "C10:fo-order" \o (IF fo.size # 500 THEN "+C04:negotiated-size" \o SizeUsers ELSE ""))
            ELSE IF fo.large /\ fo.size # m.cfgsize THEN Bad(m, "C10:fo-size+C04:negotiated-size" \o SizeUsers)
            ELSE IF ~fo.large /\ m.extended /\ fo.size # 500 THEN Bad(m, "C10:fo-size+C04:negotiated-size" \o SizeUsers)
            ELSE IF m.policy = "AllRefused" \/ (fo.large /\ m.policy = "LargeRefused")
                 THEN Good([m EXCEPT !.pend = [kind |-> "reply", bytes |-> RRReply(pf.handle, pf.ctx, FOReplyRefused(q.svc)),
                                               tell |-> [k |-> IF fo.large THEN "largeRefused" ELSE "none"]]])
            \* a connection with the same serial number triad is still held (its Forward Close never arrived): duplicate Forward Open
            ELSE IF \E i \in 1..Len(m.conns) : m.conns[i].serial = fo.serial
                 THEN Good([m EXCEPT !.pend = [kind |-> "reply", bytes |-> RRReply(pf.handle, pf.ctx, MRReply(q.svc, 1, <<256>>, <<>>)),
                                               tell |-> [k |-> "dup", large |-> fo.large, old |-> fo.serial \in m.oldSerials]]])
            ELSE IF ~Has(ch, "cid") \/ HasConn(m, ch.cid) THEN Bad(m, "MACHINERY:choice-cid")
            ELSE Good([m EXCEPT !.conns = Append(@, [cid |-> ch.cid, size |-> fo.size, sess |-> pf.handle, lastSeq |-> -1, lastReply |-> <<>>,
                                                      serial |-> fo.serial, tocid |-> fo.tocid]),
                                !.pend = [kind |-> "reply", bytes |-> RRReply(pf.handle, pf.ctx, FOReplyOk(q.svc, ch.cid, fo)),
                                          tell |-> [k |-> "conn", cid |-> ch.cid]]])
        ELSE IF IsCM(pp.segs) /\ q.svc = 78 THEN                                         \* Forward Close
            LET fc == FCParse(q.data) IN
            IF ~fc.ok \/ ~fc.exact THEN Bad(m, "C10:fc-malformed")
            ELSE LET hit == {i \in 1..Len(m.conns) : m.conns[i].serial = fc.serial} IN
                 IF hit = {} THEN Good([m EXCEPT !.pend = [kind |-> "reply", bytes |-> RRReply(pf.handle, pf.ctx, MRReply(78, 1, <<263>>, <<>>)), tell |-> [k |-> "none"]]])
                 ELSE Good([m EXCEPT !.conns = SelectSeq(@, LAMBDA c : c.serial # fc.serial),
                                     !.pend = [kind |-> "reply", bytes |-> RRReply(pf.handle, pf.ctx, MRReply(78, 0, <<>>, fc.serial \o <<0, 0>>)),
                                               tell |-> [k |-> "closed", cids |-> {m.conns[i].cid : i \in hit}]]])
        ELSE IF IsCM(pp.segs) /\ q.svc = 82 THEN                                         \* Unconnected Send
            LET u == UCSParse(q.data) IN
            IF ~u.ok THEN Bad(m, u.why)
            ELSE LET e == MRParse(u.emb)  rp == ParsePadded(u.route) IN
            IF ~e.ok THEN Bad(m, "C14:ucsend-length")
            ELSE IF ~rp.ok THEN Bad(m, "C09:parse")
            ELSE LET ep == ParsePadded(e.path) IN
            IF ~ep.ok THEN Bad(m, "C09:parse")
            ELSE LET r == Dispatch(m, e.svc, ep.segs, e.data, 504, ch, "rr", TRUE, rp.segs) IN
                 IF r.fail # "" THEN Bad(m, r.fail)
                 ELSE Good([r.m EXCEPT !.pend = [kind |-> "reply", bytes |-> RRReply(pf.handle, pf.ctx, r.reply), tell |-> [k |-> "none"]]])
        ELSE LET r == Dispatch(m, q.svc, pp.segs, q.data, 504, ch, "rr", FALSE, <<>>) IN
             IF r.fail # "" THEN Bad(m, r.fail)
             ELSE Good([r.m EXCEPT !.pend = [kind |-> "reply", bytes |-> RRReply(pf.handle, pf.ctx, r.reply), tell |-> [k |-> "none"]]])
    ELSE \* connected data
        IF ~HasConn(m, pf.cid) \/ pf.cid \notin m.dConns THEN Bad(m, "C10:connected-before-open+C11:cid")
        ELSE LET c == ConnOf(m, pf.cid)  seq == U16(pf.item, 1) IN
        IF c.sess # pf.handle THEN Bad(m, "C10:connected-before-open+C11:cid")
        ELSE IF Len(pf.item) > c.size       \* a frame the connection cannot carry: the call it belongs to cannot succeed on a real target
             THEN Bad(m, "C04:request-too-large" \o Undeliverable)
        ELSE IF seq = c.lastSeq THEN Bad(m, "C17:repeat")
        ELSE LET q == MRParse(SubSeq(pf.item, 3, Len(pf.item))) IN
        IF ~q.ok THEN
            \* when the item is a well-formed request FOLLOWED by two bytes, the sequence count was put behind the request: the
            \* target takes the first word (constant for a given service and path) for the count
            LET alt == IF Len(pf.item) >= 6 THEN MRParse(SubSeq(pf.item, 1, Len(pf.item) - 2)) ELSE [ok |-> FALSE]
                misplaced == alt.ok /\ ParsePadded(alt.path).ok
            IN Bad(m, "C14:malformed-request" \o (IF misplaced THEN "+C17:count-not-first+C11:connected-item" ELSE "") \o Undeliverable)
        ELSE LET pp == ParsePadded(q.path) IN
        IF ~pp.ok THEN Bad(m, "C09:parse")
        ELSE LET r == Dispatch(m, q.svc, pp.segs, q.data, c.size - 2, ch, "unit", FALSE, <<>>) IN
             IF r.fail # "" THEN Bad(m, r.fail)
             ELSE LET c2 == [c EXCEPT !.lastSeq = seq, !.lastReply = r.reply] IN
                  Good([r.m EXCEPT !.conns = SetConn(r.m, pf.cid, c2),
                                   !.pend = [kind |-> "reply", bytes |-> UnitReply(pf.handle, pf.ctx, c.tocid, SubSeq(pf.item, 1, 2), r.reply),
                                             tell |-> [k |-> "none"]]])

(* ------------------------------------------------------------------------------------------------------------ *)
Tell(m, t) ==
    CASE t.k = "handle"       -> [m EXCEPT !.dHandle = t.h]
      [] t.k = "conn"         -> [m EXCEPT !.dConns = @ \cup {t.cid}]
      [] t.k = "closed"       -> [m EXCEPT !.dConns = @ \ t.cids]
      [] t.k = "largeRefused" -> [m EXCEPT !.largeRefused = TRUE]
      [] t.k = "dup"          -> [m EXCEPT !.largeRefused = @ \/ t.large, !.dupTold = @ \/ t.old]
      [] OTHER                -> m

\* a reply as the (possibly corrupting) network delivered it: the logged bytes are the target's reply after the
\* logged corruption; the specification recomputes the uncorrupted reply and applies the same corruption
Corrupt(bytes, c) ==
    IF c[1] = "cut" THEN SubSeq(bytes, 1, IF c[2] < Len(bytes) THEN c[2] ELSE Len(bytes))
    ELSE IF c[1] = "flip" THEN [i \in 1..Len(bytes) |-> IF i = c[2] + 1 THEN ByteXor(bytes[i], c[3]) ELSE bytes[i]]
    ELSE IF c[1] = "status32" THEN SubSeq(bytes, 1, 8) \o LE(c[2] % 65536, 2) \o LE(c[2] \div 65536, 2) \o SubSeq(bytes, 13, Len(bytes))
    ELSE IF c[1] = "encap" THEN SubSeq(bytes, 1, 2) \o <<0, 0>> \o SubSeq(bytes, 5, 8) \o LE(c[2], 4) \o SubSeq(bytes, 13, 24)
    ELSE IF c[1] = "trunc" /\ c[2] >= 24 /\ c[2] < Len(bytes) THEN            \* well framed, payload stops early: lengths fixed up
         LET ds == IF bytes[1] = 112 THEN 44 ELSE 40
             b2 == SubSeq(bytes, 1, 2) \o LE(c[2] - 24, 2) \o SubSeq(bytes, 5, c[2])
         IN IF c[2] >= ds THEN SubSeq(b2, 1, ds - 2) \o LE(c[2] - ds, 2) \o SubSeq(b2, ds + 1, c[2]) ELSE b2
    ELSE bytes
\* length below which a reply cannot contain its CIP general status (a general status without the size of its
\* additional status is still a status: what the caller makes of such a reply is not specified)
StatusEnd(bytes) == IF Len(bytes) >= 2 /\ bytes[1] = 112 THEN 49 ELSE 43
TxStep(m, ev) ==
    LET r == TxStep0([m EXCEPT !.ntx = @ + 1], ev) IN
    IF r.fail # "" \/ ~Has(ev.choice, "corrupt") \/ r.m.pend.kind # "reply" THEN r
    ELSE LET c == ev.choice.corrupt  clean == r.m.pend.bytes  bad == Corrupt(clean, c) IN
         Good([r.m EXCEPT !.pend = [kind |-> "reply", bytes |-> bad, tell |-> [k |-> "none"]], !.corrupted = TRUE,
                          !.corrEncap = @ \/ (c[1] \in {"encap", "status32"} /\ c[2] # 0),
                          !.last = [k |-> "corrupt", how |-> c[1], short |-> Len(bad) < StatusEnd(clean), encap |-> c[1] \in {"encap", "status32"} /\ c[2] # 0,
                                    lost |-> Len(clean) - Len(bad)]])

(* ------------------------------------------------------------------------------------------------------------ *)
NamesStatusT(texts, err, st) ==
    LET hits == {i \in 1..Len(texts) : texts[i][1] = st}
        txt == IF hits = {} THEN <<>> ELSE texts[CHOOSE i \in hits : TRUE][2]
    IN \/ (txt # <<>> /\ ContainsSeq(err.s, txt))
       \/ ContainsSeq(Lower(err.s), Hex2(st))

(* ------------------------------------------------------------------------------------------------------------ *)
(* Obligations when a public call returns.                                                                        *)
TagTruthy(tg) == tg.truthy = 1
RetStep(m, ev) ==
    LET api == ev.api IN
    IF api = "_env" THEN Good(m)
    ELSE IF api = "construct" THEN Bad(m, "C15:rejected-valid")                 \* scenarios only use path strings of the grammar
    ELSE IF ev.outcome = "hang"                     \* the call did not return (I/O budget or wall-clock limit): whatever it was for is not delivered
         THEN Bad(m, "C10:hang" \o (CASE api \in {"open", "enter", "get_tag_list"} /\ m.lx.on -> "+C05:hang"
                                      [] api = "read" -> (IF m.kind = "slc" THEN "+C18:hang" ELSE "+C01:hang+C03:hang+C04:hang")
                                      [] api = "write" -> (IF m.kind = "slc" THEN "+C18:hang" ELSE "+C02:hang+C03:hang+C04:hang")
                                      [] api = "generic" -> "+C14:hang+C13:hang"
                                      [] api \in {"get_plc_info", "get_module_info", "_list_identity", "list_identity"} -> "+C16:hang"
                                      [] OTHER -> ""))
    ELSE IF ev.outcome = "exc" /\ ev.pycomm = 0 THEN Bad(m, "C10:foreign-exception+C13:foreign-exception" \o (IF api \in {"read", "write"} THEN "+C03:exception" ELSE "")
                                                          \* a read that names an existing tag has a value to return: raising withholds it
                                                          \o (IF api = "read" /\ m.kind # "slc" /\ m.lx.on /\ ev.faulted = 0 /\ Len(m.call.intent.items) <= 50
                                                                 /\ \E i \in 1..Len(m.call.intent.items) : ExpectRead(m.lx, m.call.intent.items[i]).cls # "invalid"
                                                              THEN "+C01:raised-for-existing" ELSE ""))
    \* after a close() the client presented again the serial numbers of a connection the target still holds (its Forward
    \* Close was lost): the target refuses the duplicate, so the driver object does not work again after its close().
    \* (A Forward Open repeated WITHOUT a close in between, after its reply was lost, is refused as well: not demanded.)
    ELSE IF m.dupTold /\ ~m.closeFault /\ m.alive THEN Bad(m, "C10:reopen-duplicate-connection")
    ELSE IF api \in {"close", "exit"} /\ ev.connected # 0 THEN Bad(m, "C10:close-state")
    ELSE IF api \in {"close", "exit"} /\ ~m.closeFault /\ m.alive /\ ev.faulted = 0
            /\ (m.sessions # {} \/ \E i \in 1..Len(m.conns) : m.conns[i].cid \in m.dConns) THEN Bad(m, "C10:target-dirty")
    ELSE IF api \in {"open", "enter"} /\ m.policy # "SessionRefused" /\ ev.faulted = 0 /\ m.alive
            /\ ~(ev.outcome = "value" /\ ev.connected = 1) /\ ~(m.kind = "logix" /\ m.policy = "AllRefused") /\ ~(m.lx.on /\ m.lx.upl.refused) THEN Bad(m, (IF m.closedOnce THEN "C10:reopen" ELSE "C10:open-failed") \o (IF m.lx.on THEN "+C05:upload-failed" ELSE ""))
    ELSE IF api = "generic" THEN
        LET it == m.call.intent  tg == ev.result.tags IN
        IF ev.outcome # "value" THEN (IF m.nIntent = 0 \/ ev.faulted = 1 \/ m.last.k \in {"none", "corrupt"} THEN Good(m) ELSE Bad(m, "C13:exception-on-reply"))
        ELSE IF Len(tg) # 1 THEN Bad(m, "C14:reply-value")
        ELSE IF m.last.k = "corrupt" THEN
             (IF m.last.short /\ TagTruthy(tg[1]) THEN Bad(m, "C13:short-reply-success")
              ELSE IF m.last.encap /\ TagTruthy(tg[1]) THEN Bad(m, "C13:success-on-error")
              ELSE IF ~TagTruthy(tg[1]) /\ (~IsS(tg[1].error) \/ Len(tg[1].error.s) = 0) THEN Bad(m, "C13:empty-error")
              ELSE Good(m))
        ELSE IF m.last.k # "script" THEN Good(m)
        ELSE IF m.last.status = 6 /\ it.service \in {3, 10, 82, 83, 85}                 \* partial transfer on a service that may continue: success or
             THEN (IF ~TagTruthy(tg[1]) /\ (~IsS(tg[1].error) \/ Len(tg[1].error.s) = 0)    \* failure is unspecified here, but a failure says why
                   THEN Bad(m, "C13:empty-error+C14:status-text") ELSE Good(m))
        ELSE IF m.last.status # 0 THEN
             (IF TagTruthy(tg[1]) THEN Bad(m, "C13:success-on-error+C14:refused-truthy")
              ELSE IF ~IsS(tg[1].error) \/ Len(tg[1].error.s) = 0 THEN Bad(m, "C13:empty-error+C14:status-text")
              ELSE IF ~NamesStatusT(m.texts, tg[1].error, m.last.status) THEN Bad(m, "C13:status-not-named+C14:status-text")
              ELSE IF ~StatusMeaningOk(m.last.status, tg[1].error.s) THEN Bad(m, "C13:status-meaning")      \* the text is that of another status
              \* an additional status the library has a text for (one word, or two words with a zero high word) is named too
              ELSE LET e == m.last.ext
                       known == IF Len(e) = 1 \/ (Len(e) = 2 /\ e[2] = 0)
                                THEN {i \in 1..Len(m.exttexts) : m.exttexts[i][1] = m.last.status /\ m.exttexts[i][2] = e[1]} ELSE {}
                   IN IF known # {} /\ ~ContainsSeq(tg[1].error.s, m.exttexts[CHOOSE i \in known : TRUE][3])
                      THEN Bad(m, "C13:extended-status-not-named") ELSE Good(m))
        ELSE IF Has(it, "dtype")
             THEN LET d == Dec(it.dtype, m.last.data) IN
                  IF d.st = "ok" THEN (IF TagTruthy(tg[1]) /\ TermEq(tg[1].value, d.val) THEN Good(m)
                                       ELSE IF ~TagTruthy(tg[1]) THEN Bad(m, "C13:failure-on-success") ELSE Bad(m, "C14:reply-decode"))
                  ELSE IF d.st = "unspec" THEN Good(m)
                  ELSE (IF TagTruthy(tg[1]) THEN Bad(m, "C14:reply-decode") ELSE Good(m))
        ELSE IF ~TagTruthy(tg[1]) THEN Bad(m, "C13:failure-on-success")
        ELSE IF tg[1].value = [b |-> m.last.data] THEN Good(m) ELSE Bad(m, "C14:reply-value")
    ELSE IF api \in {"get_plc_info", "get_module_info", "_list_identity", "list_identity"} THEN
        (IF ev.outcome # "value" THEN (IF ev.faulted = 1 THEN Good(m) ELSE Bad(m, "C16:exception"))
         ELSE LET c == IdentityClause(m.ident, ev.result.value, api \in {"_list_identity", "list_identity"}) IN IF c = "" THEN Good(m) ELSE Bad(m, c))
    ELSE IF api = "get_plc_name" THEN
        (IF ev.outcome # "value" THEN (IF ev.faulted = 1 THEN Good(m) ELSE Bad(m, "C14:helper-exception"))
         ELSE IF m.lx.on /\ ev.result.value # MkS(m.lx.P.name) THEN Bad(m, "C14:reply-decode") ELSE Good(m))
    ELSE IF api = "set_plc_time" THEN
        (IF ev.outcome # "value" THEN (IF ev.faulted = 1 THEN Good(m) ELSE Bad(m, "C14:helper-exception"))
         ELSE IF Len(ev.result.tags) # 1 \/ ev.result.tags[1].truthy # 1 THEN Bad(m, "C14:time-roundtrip")
         ELSE IF m.clock # BigToLE(m.call.intent.us, 8) THEN Bad(m, "C14:time-roundtrip") ELSE Good(m))
    ELSE IF api = "get_plc_time" THEN
        (IF ev.outcome # "value" THEN (IF ev.faulted = 1 THEN Good(m) ELSE Bad(m, "C14:helper-exception"))
         ELSE IF Len(ev.result.tags) # 1 THEN Bad(m, "C14:time-roundtrip")
         ELSE LET tg == ev.result.tags[1] IN
              IF tg.truthy # 1 \/ ~IsD(tg.value) THEN (IF TimeInRange(m.clock) THEN Bad(m, "C14:time-roundtrip") ELSE Good(m))
              ELSE LET us == DictGet(tg.value.d, <<109, 105, 99, 114, 111, 115, 101, 99, 111, 110, 100, 115>>) IN
                   IF us.ok /\ us.v = MkI(LEToBig(m.clock, FALSE)) THEN Good(m) ELSE Bad(m, "C14:time-roundtrip"))
    ELSE IF m.corrupted /\ api \in {"read", "write"} THEN
        \* a tag / data-file call one of whose replies was corrupted: values are not judged; a reply that cannot hold its
        \* status words (or carries an encapsulation error) must not make the only request of the call succeed
        LET tgs == ev.result.tags IN
        IF ev.outcome # "value" THEN Good(m)
        ELSE IF m.ntx = 1 /\ m.last.short /\ (\E i \in 1..Len(tgs) : TagTruthy(tgs[i])) THEN Bad(m, "C13:short-reply-success")
        ELSE IF m.ntx = 1 /\ m.last.encap /\ (\E i \in 1..Len(tgs) : TagTruthy(tgs[i])) THEN Bad(m, "C13:success-on-error")
        \* one request served by several replies (fragments): an encapsulation error on any of them fails the request
        ELSE IF Len(tgs) = 1 /\ m.corrEncap /\ TagTruthy(tgs[1]) THEN Bad(m, "C13:success-on-error")
        \* the only reply of a single read lost its tail (well framed, status 0): the data is shorter than what was addressed
        \* (timer / counter sub-elements are read as whole elements of which only a part is used: not demanded there)
        ELSE IF m.ntx = 1 /\ api = "read" /\ Len(tgs) = 1 /\ m.last.how = "trunc" /\ m.last.lost > 0 /\ TagTruthy(tgs[1])
                /\ Len(m.call.intent.items) = 1 /\ Opt(m.call.intent.items[1], "sub", "") = ""
             THEN Bad(m, "C13:truncated-data-success+C18:short-data+C01:short-data")
        ELSE IF \E i \in 1..Len(tgs) : ~TagTruthy(tgs[i]) /\ (~IsS(tgs[i].error) \/ Len(tgs[i].error.s) = 0)
                                        /\ ~(api = "write" /\ tgs[i].value = [none |-> 1])        \* writing None: unspecified
             THEN Bad(m, "C13:empty-error")
        ELSE Good(m)
    ELSE IF m.corrupted /\ api \in {"open", "enter", "get_tag_list"} THEN
        \* the upload one of whose replies was corrupted: what the library saw is unknown to the model, so the tag list is not
        \* judged; but a reply carrying an encapsulation error is no reply: the upload cannot have completed normally
        IF m.corrEncap /\ ev.outcome = "value" /\ ev.faulted = 0 THEN Bad(m, "C13:success-on-error+C05:upload-on-error")
        ELSE Good(m)
    ELSE IF m.kind = "slc" /\ api \in {"read", "write"} THEN
        LET c == SlcRet(m, ev) IN IF c = "" THEN Good(m) ELSE Bad(m, c)
    ELSE LET r == LxRet(m.lx, m.call, ev)
             \* what open() leaves in the `info` / `name` properties: the identity and the program name of the controller
             viewed == m.lx.on /\ api \in {"open", "enter"} /\ Has(ev, "view") /\ ev.outcome = "value" /\ ev.faulted = 0 /\ Has(ev.view, "info")
             ic == IF viewed /\ ~Has(m.ident, "none") THEN IdentityClause(m.ident, ev.view.info, FALSE) ELSE ""
         IN
         IF r.fail # "" THEN Bad(m, r.fail)
         ELSE IF ic # "" THEN Bad(m, ic \o "+C05:info")
         ELSE IF viewed /\ ev.view.plcname # MkS(m.lx.P.name)
                 /\ ~(~Has(m.ident, "none") /\ Len(m.ident.name) >= 4 /\ SubSeq(m.ident.name, 1, 4) = <<50, 48, 56, 48>>)      \* Micro800 ("2080-..."): the name is not fetched
              THEN Bad(m, "C14:reply-decode+C05:plc-name")
         ELSE Good([m EXCEPT !.lx = r.lx])

(* ------------------------------------------------------------------------------------------------------------ *)
Step(m, ev) ==
    CASE ev.k = "call" ->
           Good([m EXCEPT !.call = [api |-> ev.api, intent |-> ev.intent], !.nIntent = 0, !.last = [k |-> "none"], !.ntx = 0, !.corrupted = FALSE, !.corrEncap = FALSE, !.dupTold = FALSE,
                          !.slcPre = m.slc, !.slcIdx = 0,
                          !.inClose = ev.api \in {"close", "exit"}, !.closeFault = FALSE,
                          !.policy = IF ev.api = "_env" /\ Has(ev.intent, "policy") THEN ev.intent.policy ELSE @,   \* the target's admission policy changes
                          !.ident = IF ev.api = "_env" /\ Has(ev.intent, "identity") THEN ev.intent.identity ELSE @,  \* the device was exchanged
                          !.lx = IF ev.api = "_env" /\ Has(ev.intent, "project") /\ m.lx.on            \* a new program was downloaded
                                 THEN [LxCall(m.lx, ev) EXCEPT !.P = ev.intent.project, !.mem = ev.intent.mem, !.pre = ev.intent.mem]
                                 ELSE LxCall(m.lx, ev)])
      [] ev.k = "socknew" -> Good(m)
      [] ev.k = "mutated" ->                               \* a result returned earlier was changed by a later call
           Bad(m, CASE ev.api \in {"_list_identity", "list_identity", "get_module_info", "get_plc_info"} -> "C16:result-mutated"
                    [] ev.api = "read" -> "C01:result-mutated"
                    [] ev.api = "write" -> "C02:result-mutated"
                    [] OTHER -> "C14:result-mutated")
      [] ev.k = "connect" -> IF m.host # <<>> /\ ev.host # MkS(m.host) THEN Bad(m, "C15:host")
                             ELSE IF m.port # 0 /\ ev.port # m.port THEN Bad(m, "C15:port")
                             ELSE Good(m)
      [] ev.k = "sockclose" -> Good([m EXCEPT !.sessions = {}, !.dHandle = <<>>, !.pend = NoPend])
      [] ev.k = "fault" -> Good([m EXCEPT !.alive = IF ev.kind = "eof" THEN FALSE ELSE @, !.closeFault = TRUE, !.everFault = TRUE])
      [] ev.k = "noreply" -> IF m.pend.kind = "none" THEN Good(m)
                             ELSE IF m.pend.bytes = <<>> THEN Good([m EXCEPT !.pend = NoPend])          \* a reply cut to nothing
                             ELSE Bad(m, "MACHINERY:noreply-with-pending-reply")
      [] ev.k = "tx" -> TxStep(m, ev)
      [] ev.k = "rx" ->
           IF m.pend.kind # "reply" THEN Bad(m, "MACHINERY:unexpected-reply")
           ELSE IF ev.b # m.pend.bytes THEN Bad(m, "MACHINERY:reply-mismatch")
           ELSE Good([Tell(m, m.pend.tell) EXCEPT !.pend = NoPend])
      [] ev.k = "lost" ->
           IF m.pend.kind # "reply" THEN Bad(m, "MACHINERY:unexpected-reply")
           ELSE Good([m EXCEPT !.pend = NoPend])
      [] ev.k = "ret" ->
           LET r == RetStep(m, ev) IN
           IF r.fail # "" THEN r ELSE Good([r.m EXCEPT !.closedOnce = @ \/ ev.api \in {"close", "exit"}, !.inClose = FALSE,
                                                      !.dConns = IF ev.api \in {"close", "exit"} THEN {} ELSE @,
                                                      !.oldSerials = IF ev.api \in {"close", "exit"} THEN @ \cup {r.m.conns[i].serial : i \in 1..Len(r.m.conns)} ELSE @])
      [] OTHER -> Bad(m, "MACHINERY:unknown-event")

(* ------------------------------------------------------------------------------------------------------------ *)
VARIABLES t, l, m, verdict, stopped, firstAt
vars == <<t, l, m, verdict, stopped, firstAt>>
(* verdict: the clauses broken so far, in order of first occurrence, joined by "+" ("ok" = none).  A broken OBLIGATION at the  *)
(* return of a call leaves the model consistent (the model follows the target, not the result), so the rest of the trace is   *)
(* judged as well: one property's violation early in a trace does not hide another property's violation later.  A broken      *)
(* GUARD on a frame, a machinery failure or a hang ends the trace: what follows cannot be interpreted.                         *)

Events(i) == TraceLog[i].events
Init == /\ t = 1 /\ l = 2 /\ verdict = "ok" /\ stopped = FALSE /\ firstAt = 0 /\ TLCSet(1, 0)
        /\ m = IF NTraces >= 1 THEN InitModel(Events(1)[1]) ELSE [none |-> 1]

Machinery(c) == Len(c) >= 9 /\ SubSeq(c, 1, 9) = "MACHINERY"
HasClause(v, c) == \E i \in 1..(Len(v) - Len(c) + 1) : SubSeq(v, i, i + Len(c) - 1) = c
AfterRet(m2, ev) == [m2 EXCEPT !.closedOnce = @ \/ ev.api \in {"close", "exit"}, !.inClose = FALSE,
                               !.dConns = IF ev.api \in {"close", "exit"} THEN {} ELSE @,
                               !.oldSerials = IF ev.api \in {"close", "exit"} THEN @ \cup {m2.conns[i].serial : i \in 1..Len(m2.conns)} ELSE @]

EndOfTrace == l > Len(Events(t)) \/ stopped
Consume == /\ t <= NTraces /\ ~EndOfTrace
           /\ LET ev == Events(t)[l]  r == Step(m, ev)
                  goOn == r.fail # "" /\ ev.k = "ret" /\ ev.outcome # "hang" /\ ~Machinery(r.fail)
              IN
                /\ m' = IF goOn THEN AfterRet(r.m, ev) ELSE r.m
                /\ verdict' = IF r.fail = "" THEN verdict
                               ELSE IF Machinery(r.fail) THEN r.fail                    \* a machinery failure is the whole verdict
                               ELSE IF verdict = "ok" THEN r.fail
                               ELSE IF HasClause(verdict, r.fail) THEN verdict ELSE verdict \o "+" \o r.fail
                /\ stopped' = (r.fail # "" /\ ~goOn)
                /\ firstAt' = IF r.fail # "" /\ (firstAt = 0 \/ Machinery(r.fail)) THEN l ELSE firstAt
           /\ l' = l + 1 /\ t' = t
NextTrace == /\ t <= NTraces /\ EndOfTrace
             /\ PrintT(<<"VERDICT", TraceLog[t].id, verdict, IF firstAt = 0 THEN l - 1 ELSE firstAt>>) /\ TLCSet(1, t)
             /\ t' = t + 1 /\ l' = 2 /\ verdict' = "ok" /\ stopped' = FALSE /\ firstAt' = 0
             /\ m' = IF t + 1 <= NTraces THEN InitModel(Events(t + 1)[1]) ELSE [none |-> 1]
Next == Consume \/ NextTrace
Spec == Init /\ [][Next]_vars
AllJudged == TLCGet(1) = NTraces
=============================================================================
