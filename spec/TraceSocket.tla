----------------------------- MODULE TraceSocket -----------------------------
(* R3 for C12: recorded executions of the real Socket.receive / Socket.send over a scripted raw socket.  *)
(* Each case lists every recv/send call the library made (requested size, what the network gave) and the  *)
(* outcome; it is accepted iff it is a behaviour the SocketIO contract allows.                            *)
EXTENDS Integers, Sequences, FiniteSets, TLC, TLCExt, Json, IOUtils, Functions, SequencesExt

TraceLog == JsonDeserialize(IOEnv.TRACE_FILE)
N == Len(TraceLog)

Pos(k) == IF k > 0 THEN k ELSE 0
SumK(calls, n, f(_)) == FoldLeft(LAMBDA acc, c : acc + Pos(f(c)), 0, SubSeq(calls, 1, n))

RecvK(c) == c[2]
JudgeRecv(c) ==
    LET n     == Len(c.calls)
        total == SumK(c.calls, n, RecvK)
        before == IF n = 0 THEN 0 ELSE SumK(c.calls, n - 1, RecvK)
        lastk == IF n = 0 THEN 1 ELSE c.calls[n][2]
        envok == /\ \A j \in 1..n : c.calls[j][2] <= c.calls[j][1]
                 /\ total <= c.flen
        o     == c.out
    IN  IF ~envok THEN "MACHINERY:recv-env"
        ELSE IF o.kind = "hang" THEN "C12:hang"
        ELSE IF n >= 1 /\ before >= c.flen THEN "C12:overread"            \* asked for more after the frame was complete
        ELSE IF o.kind = "exc" /\ o.comm = 0 THEN "C12:foreign-exception"
        ELSE IF \E j \in 1..n : c.calls[j][2] < 0 /\ j < n THEN "C12:error-swallowed"      \* a socket error ends the call: nothing is read after it
        ELSE IF lastk <= 0                                                  \* peer closed / errored before completion
             THEN (IF o.kind = "exc" THEN "ok" ELSE "C12:partial")
        ELSE IF total = c.flen                                              \* delivered completely
             THEN (IF o.kind = "bytes" /\ o.len = c.flen /\ o.eq = 1 THEN "ok" ELSE "C12:bytes")
        ELSE (IF o.kind = "bytes" THEN "C12:partial" ELSE "C12:bytes")      \* stopped early without a fault

SendK(c) == c[3]
JudgeSend(c) ==
    LET n     == Len(c.calls)
        total == SumK(c.calls, n, SendK)
        lastk == IF n = 0 THEN 1 ELSE c.calls[n][3]
        envok == \A j \in 1..n : c.calls[j][3] <= c.calls[j][1]
        \* every slice offered starts exactly at the number of bytes accepted so far and is not empty
        inorder == \A j \in 1..n : /\ c.calls[j][2] = SumK(c.calls, j - 1, SendK)
                                   /\ c.calls[j][1] >= 1
                                   /\ c.calls[j][1] <= c.mlen - c.calls[j][2]
        o     == c.out
    IN  IF ~envok THEN "MACHINERY:send-env"
        ELSE IF o.kind = "hang" THEN "C12:hang"
        ELSE IF ~inorder THEN "C12:send-order"
        ELSE IF o.kind = "exc" /\ o.comm = 0 THEN "C12:foreign-exception"
        ELSE IF lastk <= 0 THEN (IF o.kind = "exc" THEN "ok" ELSE "C12:send-loss")
        ELSE IF total = c.mlen THEN (IF o.kind = "ret" THEN "ok" ELSE "C12:send-fail")
        ELSE (IF o.kind = "ret" THEN "C12:send-loss" ELSE "C12:send-fail")

Judge(c) == IF c.op = "recv" THEN JudgeRecv(c) ELSE JudgeSend(c)

VARIABLE i
Init == i = 1
Next == /\ i <= N
        /\ LET v == Judge(TraceLog[i]) IN IF v = "ok" THEN TRUE ELSE PrintT(<<"FAIL", i, v>>)
        /\ i' = i + 1
Spec == Init /\ [][Next]_i
AllJudged == TLCGet("stats").diameter - 1 = N
==============================================================================
