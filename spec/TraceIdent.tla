------------------------------ MODULE TraceIdent ------------------------------
(* R3 for C16(a): recorded decodes of identity objects (Identity object attributes / ListIdentity item) by the real  *)
(* structures, judged against the reference layout and the user's view.                                               *)
EXTENDS IdentityView, TLCExt, Json, IOUtils

TraceLog == JsonDeserialize(IOEnv.TRACE_FILE)
N == Len(TraceLog)

\* discover(): one ListIdentity reply datagram per device; replies that are cut short or carry an encapsulation error are
\* not devices; the result lists the identities of the good replies in arrival order, whatever came before them
ReplyFrame(i) == LET item == ListIdentityItem(i)  body == LE(1, 2) \o LE(12, 2) \o LE(Len(item), 2) \o item
                 IN Header(CmdListId, Len(body), Zero4, Zero4, Zeros(8)) \o body
Damage(b, d) == IF d.kind = "good" THEN b
                ELSE IF d.kind = "trunc" THEN SubSeq(b, 1, d.n)
                ELSE SubSeq(b, 1, 8) \o LE(d.n, 4) \o SubSeq(b, 13, Len(b))            \* "status": encapsulation status d.n # 0
RECURSIVE DiscoverClause(_, _, _, _)
DiscoverClause(ds, out, j, k) ==
    IF j > Len(ds) THEN (IF k = Len(out) + 1 THEN "ok" ELSE "C16:discover-extra")
    ELSE IF ds[j].kind # "good" THEN DiscoverClause(ds, out, j + 1, k)
    ELSE IF k > Len(out) THEN "C16:discover-missing"
    ELSE LET c == IdentityClause(ds[j].ident, out[k], TRUE) IN IF c # "" THEN c ELSE DiscoverClause(ds, out, j + 1, k + 1)
JudgeDiscover(e) ==
    IF \E j \in 1..Len(e.dgrams) : e.dgrams[j].bytes # Damage(ReplyFrame(e.dgrams[j].ident), e.dgrams[j]) THEN "MACHINERY:discover-bytes"
    ELSE IF e.out.kind # "val" \/ ~IsL(e.out.v) THEN "C16:discover-failed"
    ELSE DiscoverClause(e.dgrams, e.out.v.l, 1, 1)

\* an identity object that is not at the start of the buffer: after other data, as a structure member, as an array element
JudgePos(e) ==
    IF e.out.kind # "val" \/ ~IsL(e.out.v) \/ Len(e.out.v.l) # Len(e.idents) THEN "C16:decode-failed"
    ELSE LET cs == [j \in 1..Len(e.idents) |-> IdentityClause(e.idents[j], e.out.v.l[j], FALSE)] IN
         IF \E j \in 1..Len(cs) : cs[j] # "" THEN cs[CHOOSE j \in 1..Len(cs) : cs[j] # ""] ELSE "ok"

JudgeIdent(e) ==
    LET i == e.ident
        item == ListIdentityItem(i)
        wire == IF e.list = 1 THEN LE(12, 2) \o LE(Len(item), 2) \o item ELSE IdentityCore(i)
    IN IF e.bytes # wire THEN "MACHINERY:identity-bytes"
       ELSE IF e.out.kind # "val" THEN "C16:decode-failed"
       ELSE LET c == IdentityClause(i, e.out.v, e.list = 1) IN
            IF c # "" THEN c
            ELSE IF e.rt.kind = "skip" THEN "ok"
            ELSE IF e.rt.kind = "val" /\ TermEq(e.rt.v, e.out.v) THEN "ok" ELSE "C16:roundtrip"     \* decode(encode(d)) = d

Judge(e) == CASE e.op = "discover" -> JudgeDiscover(e)
              [] e.op = "pos" -> JudgePos(e)
              [] OTHER -> JudgeIdent(e)

VARIABLE k
Init == k = 1
Next == /\ k <= N
        /\ LET v == Judge(TraceLog[k]) IN IF v = "ok" THEN TRUE ELSE PrintT(<<"FAIL", k, v>>)
        /\ k' = k + 1
Spec == Init /\ [][Next]_k
AllJudged == TLCGet("stats").diameter - 1 = N
==============================================================================
