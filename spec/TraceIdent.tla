------------------------------ MODULE TraceIdent ------------------------------
(* R3 for C16(a): recorded decodes of identity objects (Identity object attributes / ListIdentity item) by the real  *)
(* structures, judged against the reference layout and the user's view.                                               *)
EXTENDS IdentityView, TLCExt, Json, IOUtils

TraceLog == JsonDeserialize(IOEnv.TRACE_FILE)
N == Len(TraceLog)

Judge(e) ==
    LET i == e.ident
        item == ListIdentityItem(i)
        wire == IF e.list = 1 THEN LE(12, 2) \o LE(Len(item), 2) \o item ELSE IdentityCore(i)
    IN IF e.bytes # wire THEN "MACHINERY:identity-bytes"
       ELSE IF e.out.kind # "val" THEN "C16:decode-failed"
       ELSE LET c == IdentityClause(i, e.out.v, e.list = 1) IN
            IF c # "" THEN c
            ELSE IF e.rt.kind = "skip" THEN "ok"
            ELSE IF e.rt.kind = "val" /\ TermEq(e.rt.v, e.out.v) THEN "ok" ELSE "C16:roundtrip"     \* decode(encode(d)) = d

VARIABLE k
Init == k = 1
Next == /\ k <= N
        /\ LET v == Judge(TraceLog[k]) IN IF v = "ok" THEN TRUE ELSE PrintT(<<"FAIL", k, v>>)
        /\ k' = k + 1
Spec == Init /\ [][Next]_k
AllJudged == TLCGet("stats").diameter - 1 = N
==============================================================================
