SPECIFICATION Spec
INVARIANT Total
INVARIANT Consistent
INVARIANT ReverseCarriesCode
INVARIANT AnyCaseResolves
CHECK_DEADLOCK FALSE
