------------------------------ MODULE TracePath ------------------------------
(* R3 for C09 (emitted CIP paths) and C15 (connection-path strings): recorded outputs of the real path       *)
(* builders are parsed by the strict EPath parser and compared with the intended meaning.                    *)
EXTENDS ConnPath, TLCExt, Json, IOUtils

TraceLog == JsonDeserialize(IOEnv.TRACE_FILE)
N == Len(TraceLog)

\* intent segments arrive with the same field names as EPath's records
JudgePath(e) ==
    IF e.out.kind # "bytes" THEN "C09:parse"                              \* an in-grammar path must be produced
    ELSE LET b == e.out.b   hdr == IF e.sized = 0 THEN 0 ELSE IF e.padlen = 1 THEN 2 ELSE 1 IN
    IF Len(b) >= hdr /\ (Len(b) - hdr) % 2 = 1 THEN "C09:parity"
    ELSE IF e.sized = 1 /\ (Len(b) < (IF e.padlen = 1 THEN 2 ELSE 1) \/ Len(b) - (IF e.padlen = 1 THEN 2 ELSE 1) # 2 * b[1]) THEN "C09:count"
    ELSE LET r == IF e.sized = 1 THEN ParseSized(b, e.padlen = 1) ELSE ParsePadded(b) IN
         IF ~r.ok THEN "C09:parse"
         ELSE IF SegsEq(r.segs, e.intent) THEN "ok" ELSE "C09:meaning"

JudgeConn(e) ==
    LET m == Interp(e.s, e.auto = 1)   o == e.out IN
    IF m.cls = "unspec" THEN "ok"
    ELSE IF m.cls = "reject" THEN
         (IF o.kind = "exc" THEN (IF o.req = 1 THEN "ok" ELSE "C15:wrong-exception")
          ELSE IF o.route.kind = "bytes" THEN "C15:accepted-invalid"
          ELSE IF o.route.data = 1 THEN "ok" ELSE "C15:wrong-exception")
    ELSE IF o.kind = "exc" THEN "C15:rejected-valid"
    ELSE IF o.host # m.host THEN "C15:host"
    ELSE IF o.port # m.port THEN "C15:port"
    ELSE IF o.route.kind # "bytes" THEN "C15:rejected-valid"
    ELSE LET r == ParseSized(o.route.b, FALSE) IN
         IF r.ok /\ SegsEq(r.segs, m.route) THEN "ok" ELSE "C15:route-meaning"

\* all spellings of one route give identical route bytes
JudgeSpelling(e) ==
    IF \A i \in 1..Len(e.outs) : e.outs[i].kind = "bytes" /\ e.outs[i].b = e.outs[1].b THEN "ok" ELSE "C15:spelling"

Judge(e) ==
    CASE e.op = "path"     -> JudgePath(e)
      [] e.op = "conn"     -> JudgeConn(e)
      [] e.op = "spelling" -> JudgeSpelling(e)
      [] OTHER             -> "MACHINERY:unknown-op"

VARIABLE i
Init == i = 1
Next == /\ i <= N
        /\ LET v == Judge(TraceLog[i]) IN IF v = "ok" THEN TRUE ELSE PrintT(<<"FAIL", i, v>>)
        /\ i' = i + 1
Spec == Init /\ [][Next]_i
AllJudged == TLCGet("stats").diameter - 1 = N
==============================================================================
