SPECIFICATION Spec
CONSTANT MaxLen = 2
INVARIANT RoundTrip
INVARIANT EvenLength
INVARIANT SizedRoundTrip
INVARIANT WrongCountRejected
INVARIANT OddRejected
INVARIANT PadAndFormatStrict
CHECK_DEADLOCK FALSE
