SPECIFICATION Spec
CONSTANTS Sizes = {30, 33}  MaxMult = 2  Paths = {2, 4}
INVARIANT FitsRequest
INVARIANT FitsReply
INVARIANT OffsetsContiguous
INVARIANT ExactCover
INVARIANT NoOverlap
PROPERTY Terminates
CHECK_DEADLOCK FALSE
