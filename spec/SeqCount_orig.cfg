SPECIFICATION Spec
CONSTANTS N = 7  MaxOps = 6  MaxK = 9  MemberTakes = 1  FragPre = 1  SlcPre = 1
INVARIANT Fresh
CHECK_DEADLOCK FALSE
