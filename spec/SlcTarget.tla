------------------------------ MODULE SlcTarget ------------------------------
(* Property C18.  The SLC / MicroLogix data table and the PCCC "protected typed logical read / masked write with    *)
(* three address fields" (DF1 manual 1770-6.5.16, commands 0F/A2 and 0F/AB) carried by the Execute-PCCC service       *)
(* (0x4B) of the PCCC object (class 0x67), and SlcView: what a data-file address means.                               *)
(* table: sequence of [file, type, words]; words are 16-bit values 0..65535.                                          *)
EXTENDS Bytes, CipTypes

ElemWords(ty) == CASE ty \in {"N", "B", "S", "I", "O", "A"} -> 1 [] ty \in {"F", "L"} -> 2 [] ty \in {"T", "C"} -> 3 [] ty = "ST" -> 42
TypeCode(ty) == CASE ty = "N" -> 137 [] ty = "B" -> 133 [] ty = "T" -> 134 [] ty = "C" -> 135 [] ty = "S" -> 132 [] ty = "F" -> 138
                  [] ty = "O" -> 130 [] ty = "I" -> 131 [] ty = "L" -> 145 [] ty = "ST" -> 141 [] ty = "A" -> 142 [] ty = "DLG" -> 165
FileIdx(tab, f) == {i \in 1..Len(tab) : tab[i].file = f}
HasFile(tab, f) == FileIdx(tab, f) # {}
FileOf(tab, f) == tab[CHOOSE i \in FileIdx(tab, f) : TRUE]
\* data-log queues (MicroLogix): queue q is the table entry 10000 + q of type "DLG" whose field recs holds the records still
\* queued (byte strings); a typed read of file type 0xA5, element q, takes the oldest record off the queue
DlgFile(q) == 10000 + q
SetRecs(tab, f, r) == [i \in 1..Len(tab) |-> IF tab[i].file = f THEN [tab[i] EXCEPT !.recs = r] ELSE tab[i]]
SetWords(tab, f, w) == [i \in 1..Len(tab) |-> IF tab[i].file = f THEN [tab[i] EXCEPT !.words = w] ELSE tab[i]]

\* one address field: a byte, or 0xFF followed by a 16-bit value  ->  [ok, v, next]
AddrField(d, p) == IF p > Len(d) THEN [ok |-> FALSE, v |-> 0, next |-> p]
               ELSE IF d[p] # 255 THEN [ok |-> TRUE, v |-> d[p], next |-> p + 1]
               ELSE IF p + 2 > Len(d) THEN [ok |-> FALSE, v |-> 0, next |-> p]
               ELSE [ok |-> TRUE, v |-> U16(d, p + 1), next |-> p + 3]

\* parse the Execute-PCCC request data -> [ok, reqid, cmd, tns, fnc, size, file, ftype, elem, sub, rest]
PcccParse(d) ==
    LET bad == [ok |-> FALSE, reqid |-> <<>>, cmd |-> 0, tns |-> <<>>, fnc |-> 0, size |-> 0, file |-> 0, ftype |-> 0, elem |-> 0, sub |-> 0, rest |-> <<>>] IN
    IF Len(d) < 1 \/ d[1] < 1 \/ Len(d) < d[1] + 5 THEN bad
    ELSE LET rl == d[1]
             f1 == AddrField(d, rl + 6)  f2 == AddrField(d, f1.next)  f3 == AddrField(d, f2.next)  f4 == AddrField(d, f3.next)  f5 == AddrField(d, f4.next) IN
         IF ~(f1.ok /\ f2.ok /\ f3.ok /\ f4.ok /\ f5.ok) THEN bad
         ELSE [ok |-> TRUE, reqid |-> SubSeq(d, 1, rl), cmd |-> d[rl + 1], tns |-> SubSeq(d, rl + 3, rl + 4), fnc |-> d[rl + 5],
               size |-> f1.v, file |-> f2.v, ftype |-> f3.v, elem |-> f4.v, sub |-> f5.v, rest |-> SubSeq(d, f5.next, Len(d))]

PcccReply(q, sts, ext, payload) == q.reqid \o <<q.cmd + 64, sts>> \o q.tns \o ext \o payload
WordsLE(ws) == FlattenSeq([i \in 1..Len(ws) |-> LE(ws[i], 2)])
WordAnd(a, b) == ByteAnd(a % 256, b % 256) + 256 * ByteAnd(a \div 256, b \div 256)
WordOr(a, b)  == ByteOr(a % 256, b % 256) + 256 * ByteOr(a \div 256, b \div 256)
WordNot(a)    == 65535 - a

\* execute -> [reply data, table]
PcccExec(tab, d) ==
    LET q == PcccParse(d) IN
    IF ~q.ok THEN [reply |-> <<>>, tab |-> tab, ok |-> FALSE, q |-> q]
    ELSE IF q.cmd # 15 \/ q.fnc \notin {162, 171} THEN [reply |-> PcccReply(q, 16, <<>>, <<>>), tab |-> tab, ok |-> TRUE, q |-> q]
    ELSE IF q.ftype = 165 /\ q.fnc = 162 THEN
         (IF ~HasFile(tab, DlgFile(q.elem)) \/ FileOf(tab, DlgFile(q.elem)).recs = <<>>
          THEN [reply |-> PcccReply(q, 240, <<6>>, <<>>), tab |-> tab, ok |-> TRUE, q |-> q]
          ELSE LET recs == FileOf(tab, DlgFile(q.elem)).recs IN
               [reply |-> PcccReply(q, 0, <<>>, Head(recs)), tab |-> SetRecs(tab, DlgFile(q.elem), Tail(recs)), ok |-> TRUE, q |-> q])
    ELSE IF ~HasFile(tab, q.file) \/ TypeCode(FileOf(tab, q.file).type) # q.ftype THEN [reply |-> PcccReply(q, 240, <<6>>, <<>>), tab |-> tab, ok |-> TRUE, q |-> q]
    ELSE LET f == FileOf(tab, q.file)  ew == ElemWords(f.type)  w0 == q.elem * ew + q.sub  nw == (q.size + 1) \div 2 IN
         IF q.size % 2 = 1 \/ nw = 0 \/ w0 + nw > Len(f.words) THEN [reply |-> PcccReply(q, 240, <<IF q.size % 2 = 0 THEN 10 ELSE 11>>, <<>>), tab |-> tab, ok |-> TRUE, q |-> q]
         ELSE IF q.fnc = 162 THEN [reply |-> PcccReply(q, 0, <<>>, WordsLE(SubSeq(f.words, w0 + 1, w0 + nw))), tab |-> tab, ok |-> TRUE, q |-> q]
         ELSE IF Len(q.rest) # 2 + q.size THEN [reply |-> PcccReply(q, 16, <<>>, <<>>), tab |-> tab, ok |-> TRUE, q |-> q]
         ELSE LET mask == U16(q.rest, 1)
                  nwds == [i \in 1..Len(f.words) |-> IF i > w0 /\ i <= w0 + nw
                                                     THEN WordOr(WordAnd(f.words[i], WordNot(mask)), WordAnd(U16(q.rest, 3 + 2 * (i - w0 - 1)), mask))
                                                     ELSE f.words[i]]
              IN [reply |-> PcccReply(q, 0, <<>>, <<>>), tab |-> SetWords(tab, q.file, nwds), ok |-> TRUE, q |-> q]

(* ------------------------------------------------ SlcView ------------------------------------------------ *)
(* address intent: [ftype, file, elem, pos (I/O position word), bit (-1 none), sub ("" | "PRE" | "ACC" | "EN" ...),   *)
(*                  count, valid]                                                                                      *)
SubWord(s) == CASE s = "PRE" -> 1 [] s = "ACC" -> 2 [] OTHER -> 0
SubBit(s)  == CASE s = "EN" -> 15 [] s = "TT" -> 14 [] s = "DN" -> 13 [] s = "CU" -> 15 [] s = "CD" -> 14 [] s = "OV" -> 12 [] s = "UN" -> 11 [] s = "UA" -> 10 [] OTHER -> -1
Int16(w) == MkI(IF w >= 32768 THEN MkBig(1, Rev(LE(65536 - w, 4))) ELSE SmallToBig(w))
ElemValue(ty, ws, k) ==          \* value of the element whose first word is ws[k]
    CASE ty \in {"N", "B", "S", "I", "O", "T", "C"} -> Int16(ws[k])
      [] ty = "L" -> MkI(LEToBig(LE(ws[k], 2) \o LE(ws[k + 1], 2), TRUE))
      [] ty = "F" -> F32Dec(LE(ws[k], 2) \o LE(ws[k + 1], 2))
\* expected read result [cls, val]
SlcExpectRead(tab, a) ==
    IF ~HasFile(tab, a.file) \/ FileOf(tab, a.file).type # a.ftype THEN [cls |-> "absent", val |-> NoVal]
    ELSE LET f == FileOf(tab, a.file)  ew == ElemWords(f.type)  w0 == a.elem * ew + a.pos IN
         IF w0 + ew * a.count > Len(f.words) THEN [cls |-> "absent", val |-> NoVal]
         ELSE IF a.sub # "" THEN
              (IF SubBit(a.sub) >= 0 THEN [cls |-> "valid", val |-> MkB(BitOf16(f.words[w0 + 1], SubBit(a.sub)) = 1)]
               ELSE [cls |-> "valid", val |-> Int16(f.words[w0 + 1 + SubWord(a.sub)])])
         ELSE IF a.bit >= 0 THEN [cls |-> "valid", val |-> MkB(BitOf16(f.words[w0 + 1], a.bit) = 1)]
         ELSE IF a.count = 1 THEN [cls |-> "valid", val |-> ElemValue(f.type, f.words, w0 + 1)]
         ELSE [cls |-> "valid", val |-> MkL([j \in 1..a.count |-> ElemValue(f.type, f.words, w0 + 1 + (j - 1) * ew)])]
==============================================================================
