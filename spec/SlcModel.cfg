SPECIFICATION Spec
INVARIANT EscapeRoundTrips
INVARIANT WriteThenRead
INVARIANT BitWriteTouchesOneBit
INVARIANT NothingOutside
INVARIANT OutOfRangeRefused
CHECK_DEADLOCK FALSE
