------------------------------ MODULE CipTypes ------------------------------
(* Reference codec for the CIP / Logix data types (properties C06, C07, C08, C16; used by the Logix target). *)
(*                                                                                                             *)
(* Type descriptors (records, field k = kind):                                                                *)
(*   [k:"int", w:1|2|4|8, s:0|1]       little-endian two's-complement / unsigned integer  (CIP Vol 1, C-5.2.1) *)
(*   [k:"bool"]                        one byte, 0x00 false, 0xFF true on the wire, any non-zero decodes TRUE  *)
(*   [k:"real", w:4|8]                 IEEE-754 binary32 / binary64, little-endian                             *)
(*   [k:"str", lw:1|2|4, cw:1|2]       length-prefixed string: SHORT_STRING (1,1) STRING (2,1) LOGIX (4,1)     *)
(*                                     STRING2 (2,2: count of 16-bit characters, UTF-16-LE)                    *)
(*   [k:"stringn"]                     UINT char size, UINT char count, characters                             *)
(*   [k:"bits", w:1|2|4|8]             bit string, list of 8w booleans, bit 0 first                            *)
(*   [k:"nbytes", n]                   n raw bytes (n = -1: the rest of the buffer)                            *)
(*   [k:"arr", lk:"fixed"|"derived"|"unbounded", n, lt, el]                                                  *)
(*   [k:"struct", m:<<[n: name code points (<<>> = unnamed), t]>>]                                            *)
(*   [k:"fixedstr", cap, lw]           Logix string: LEN (lw bytes) + cap characters, zero padded              *)
(*   [k:"structtag", size, m:<<[n, t, off]>>, bits:<<[n, off, bit]>>, priv:<<names>>]   Logix UDT by template  *)
(*   [k:"dt"]  DATE_AND_TIME (UDINT ms, UINT days)     [k:"ip"]  IPv4 address, 4 bytes network order           *)
(* Value terms are the tagged records of vf/values.py.                                                         *)
EXTENDS Bytes, Ieee754, Unicode, TLC

NoVal == [none |-> 1]
IsI(v)  == "i" \in DOMAIN v
IsB(v)  == "B" \in DOMAIN v
IsF(v)  == "f" \in DOMAIN v
IsFS(v) == "F" \in DOMAIN v
IsS(v)  == "s" \in DOMAIN v
IsBy(v) == "b" \in DOMAIN v
IsL(v)  == "l" \in DOMAIN v
IsD(v)  == "d" \in DOMAIN v
IsNone(v) == "none" \in DOMAIN v
MkI(big) == [i |-> big]
MkB(x)   == [B |-> IF x THEN 1 ELSE 0]
MkS(cps) == [s |-> cps]
MkL(xs)  == [l |-> xs]
MkD(ps)  == [d |-> ps]

(* ---------------------------------------- term equality ---------------------------------------- *)
RECURSIVE TermEq(_, _)
TermEq(a, b) ==
    IF DOMAIN a # DOMAIN b THEN FALSE
    ELSE IF IsL(a) THEN Len(a.l) = Len(b.l) /\ \A i \in 1..Len(a.l) : TermEq(a.l[i], b.l[i])
    ELSE IF IsD(a) THEN                       \* dicts: same keys, equal values, order irrelevant (last entry wins)
         LET ka == {a.d[i][1] : i \in 1..Len(a.d)}
             kb == {b.d[i][1] : i \in 1..Len(b.d)}
             va(k) == a.d[Max({i \in 1..Len(a.d) : a.d[i][1] = k})][2]
             vb(k) == b.d[Max({i \in 1..Len(b.d) : b.d[i][1] = k})][2]
         IN ka = kb /\ \A k \in ka : TermEq(va(k), vb(k))
    ELSE a = b

(* ------------------------------------------- encoding ------------------------------------------- *)
In(bytes) == [st |-> "in", bytes |-> bytes]
OutR      == [st |-> "out", bytes |-> <<>>]
UnspecR   == [st |-> "unspec", bytes |-> <<>>]
\* combine component results: any out -> out, else any unspec -> unspec, else concatenation
Combine(rs) ==
    IF \E i \in 1..Len(rs) : rs[i].st = "out" THEN OutR
    ELSE IF \E i \in 1..Len(rs) : rs[i].st = "unspec" THEN UnspecR
    ELSE In(FlattenSeq([i \in 1..Len(rs) |-> rs[i].bytes]))

MaxLenOf(lw) == CASE lw = 1 -> 255 [] lw = 2 -> 65535 [] lw = 4 -> 2147483647
IsBmp(s) == \A i \in 1..Len(s) : s[i] < 65536

BitsToBytes(vals, w) ==      \* vals: 8w boolean terms, bit 0 first
    [j \in 1..w |-> FoldLeft(LAMBDA acc, i : acc + vals[8 * (j - 1) + i + 1].B * Pow2(i), 0, <<0, 1, 2, 3, 4, 5, 6, 7>>)]

\* dotted-quad text -> [ok, bytes]
DigitsVal(ds) == FoldLeft(LAMBDA acc, c : 10 * acc + (c - 48), 0, ds)
ParseQuad(s) ==
    LET dots == {i \in 1..Len(s) : s[i] = 46}
        okchars == \A i \in 1..Len(s) : s[i] = 46 \/ (s[i] >= 48 /\ s[i] <= 57)
    IN  IF ~okchars \/ Cardinality(dots) # 3 THEN [ok |-> FALSE, bytes |-> <<>>]
        ELSE LET ds == SetToSortSeq(dots, LAMBDA x, y : x < y)
                 part(j) == CASE j = 1 -> SubSeq(s, 1, ds[1] - 1)
                              [] j = 2 -> SubSeq(s, ds[1] + 1, ds[2] - 1)
                              [] j = 3 -> SubSeq(s, ds[2] + 1, ds[3] - 1)
                              [] j = 4 -> SubSeq(s, ds[3] + 1, Len(s))
                 good(p) == Len(p) >= 1 /\ Len(p) <= 3 /\ DigitsVal(p) <= 255 /\ (Len(p) > 1 => p[1] # 48)
             IN IF \A j \in 1..4 : good(part(j))
                THEN [ok |-> TRUE, bytes |-> [j \in 1..4 |-> DigitsVal(part(j))]]
                ELSE [ok |-> FALSE, bytes |-> <<>>]
DecDigits(n) == IF n >= 100 THEN <<48 + (n \div 100), 48 + ((n \div 10) % 10), 48 + (n % 10)>>
                ELSE IF n >= 10 THEN <<48 + (n \div 10), 48 + (n % 10)>> ELSE <<48 + n>>
QuadText(b, p) == DecDigits(b[p]) \o <<46>> \o DecDigits(b[p + 1]) \o <<46>> \o DecDigits(b[p + 2]) \o <<46>> \o DecDigits(b[p + 3])

DictGet(d, name) == LET hits == {i \in 1..Len(d) : d[i][1] = MkS(name)}
                    IN IF hits = {} THEN [ok |-> FALSE, v |-> NoVal] ELSE [ok |-> TRUE, v |-> d[Max(hits)][2]]
\* overlay `bytes` on `base` at 0-based offset off (no growth)
Overlay(base, off, bytes) == [i \in 1..Len(base) |-> IF i > off /\ i <= off + Len(bytes) THEN bytes[i - off] ELSE base[i]]
SetBit(base, off, bit, on) ==
    [i \in 1..Len(base) |-> IF i = off + 1
                            THEN (IF on THEN (IF BitOf(base[i], bit) = 1 THEN base[i] ELSE base[i] + Pow2(bit))
                                        ELSE (IF BitOf(base[i], bit) = 1 THEN base[i] - Pow2(bit) ELSE base[i]))
                            ELSE base[i]]

RECURSIVE EncR(_, _)
EncR(t, v) ==
  CASE t.k = "int" ->
         IF IsI(v) THEN (IF (IF t.s = 1 THEN FitsSigned(v.i, t.w) ELSE FitsUnsigned(v.i, t.w)) THEN In(BigToLE(v.i, t.w)) ELSE OutR)
         ELSE IF IsB(v) THEN UnspecR ELSE OutR
    [] t.k = "bool" ->
         IF IsB(v) THEN In(<<IF v.B = 1 THEN 255 ELSE 0>>)
         ELSE IF IsI(v) THEN In(<<IF BigIsZero(v.i) THEN 0 ELSE 255>>) ELSE UnspecR
    [] t.k = "real" ->
         IF IsF(v) \/ IsFS(v)
         THEN LET r == IF t.w = 4 THEN F32Enc(v) ELSE F64Enc(v)
              IN IF r.ok THEN In(r.bytes) ELSE OutR
         ELSE IF IsI(v) \/ IsB(v) THEN UnspecR ELSE OutR
    [] t.k = "str" ->
         IF ~IsS(v) THEN OutR
         ELSE IF t.cw = 1
              THEN (IF Latin1Ok(v.s) /\ Len(v.s) <= MaxLenOf(t.lw) THEN In(LE(Len(v.s), t.lw) \o v.s) ELSE OutR)
              ELSE (IF ~Utf16Ok(v.s) \/ Len(v.s) > 65535 THEN OutR
                    ELSE IF ~IsBmp(v.s) THEN UnspecR
                    ELSE In(LE(Len(v.s), t.lw) \o Utf16Enc(v.s)))
    [] t.k = "fixedstr" ->
         IF ~IsS(v) THEN OutR
         ELSE IF "capn" \in DOMAIN t /\ Len(v.s) > t.capn                \* a Logix string tag: longer values are cut to the capacity
              THEN (IF Latin1Ok(SubSeq(v.s, 1, t.capn)) THEN In(LE(t.capn, t.lw) \o SubSeq(v.s, 1, t.capn) \o Zeros(t.cap - t.capn)) ELSE OutR)
         ELSE IF Len(v.s) > t.cap THEN UnspecR            \* bare codec: cut to capacity or refused, not fixed by the property
         ELSE IF ~Latin1Ok(v.s) THEN OutR
         ELSE In(LE(Len(v.s), t.lw) \o v.s \o Zeros(t.cap - Len(v.s)))
    [] t.k = "stringn" ->
         IF IsS(v) THEN EncR(t, MkL(<<v, MkI(<<0, 1>>)>>))                      \* character size defaults to 1
         ELSE IF ~(IsL(v) /\ Len(v.l) = 2 /\ IsS(v.l[1]) /\ IsI(v.l[2])) THEN OutR
         ELSE LET s == v.l[1].s
                  cw == IF BigIsSmall(v.l[2].i) THEN BigToSmall(v.l[2].i) ELSE 0
              IN IF cw \notin {1, 2, 4} \/ Len(s) > 65535 THEN OutR
                 ELSE IF ~Utf16Ok(s) THEN OutR
                 ELSE IF cw = 1 THEN (IF AsciiOk(s) THEN In(LE(1, 2) \o LE(Len(s), 2) \o s) ELSE UnspecR)
                 ELSE IF cw = 2 THEN (IF IsBmp(s) THEN In(LE(2, 2) \o LE(Len(s), 2) \o Utf16Enc(s)) ELSE UnspecR)
                 ELSE In(LE(4, 2) \o LE(Len(s), 2) \o Utf32Enc(s))
    [] t.k = "bits" ->
         IF ~IsL(v) THEN OutR
         ELSE IF Len(v.l) # 8 * t.w THEN OutR
         ELSE IF \A i \in 1..Len(v.l) : IsB(v.l[i]) THEN In(BitsToBytes(v.l, t.w)) ELSE UnspecR
    [] t.k = "nbytes" ->
         IF ~IsBy(v) THEN UnspecR
         ELSE IF t.n = -1 \/ Len(v.b) = t.n THEN In(v.b) ELSE UnspecR
    [] t.k = "arr" ->
         IF IsS(v) \/ IsBy(v) THEN UnspecR              \* str / bytes are sequences too: not fixed by the property
         ELSE IF ~IsL(v) THEN OutR
         ELSE IF t.el.k = "bits"
              THEN LET cs == 8 * t.el.w
                       n  == IF t.lk = "fixed" THEN t.n ELSE Len(v.l) \div cs
                   IN IF t.lk = "fixed" /\ Len(v.l) < n * cs THEN OutR
                      ELSE IF t.lk # "fixed" /\ Len(v.l) % cs # 0 THEN UnspecR
                      ELSE Combine([i \in 1..n |-> EncR(t.el, MkL(SubSeq(v.l, (i - 1) * cs + 1, i * cs)))])
              ELSE LET n == IF t.lk = "fixed" THEN t.n ELSE Len(v.l)
                   IN IF Len(v.l) < n THEN OutR
                      ELSE Combine([i \in 1..n |-> EncR(t.el, v.l[i])])
    [] t.k = "struct" ->
         IF IsD(v)
         THEN IF \E i \in 1..Len(t.m) : t.m[i].n = <<>> THEN UnspecR
              ELSE IF \E i \in 1..Len(t.m) : ~DictGet(v.d, t.m[i].n).ok THEN OutR
              ELSE Combine([i \in 1..Len(t.m) |-> EncR(t.m[i].t, DictGet(v.d, t.m[i].n).v)])
         ELSE IF IsL(v)
         THEN IF Len(v.l) < Len(t.m) THEN OutR
              ELSE IF Len(v.l) > Len(t.m) THEN UnspecR
              ELSE Combine([i \in 1..Len(t.m) |-> EncR(t.m[i].t, v.l[i])])
         ELSE OutR
    [] t.k = "structtag" ->
         IF ~IsD(v) THEN UnspecR
         ELSE LET vis == SelectSeq(t.m, LAMBDA mm : ~\E j \in 1..Len(t.priv) : t.priv[j] = mm.n)
                  rs  == [i \in 1..Len(vis) |-> IF DictGet(v.d, vis[i].n).ok THEN EncR(vis[i].t, DictGet(v.d, vis[i].n).v) ELSE OutR]
                  bs  == [i \in 1..Len(t.bits) |-> DictGet(v.d, t.bits[i].n)]
                  c   == Combine(rs)
              IN IF c.st # "in" THEN c
                 ELSE IF \E i \in 1..Len(bs) : ~bs[i].ok THEN OutR
                 ELSE IF \E i \in 1..Len(bs) : ~(IsB(bs[i].v) \/ IsI(bs[i].v)) THEN UnspecR
                 ELSE IF \E i \in 1..Len(vis) : vis[i].off + Len(rs[i].bytes) > t.size THEN UnspecR
                 ELSE LET withm == FoldLeft(LAMBDA acc, i : Overlay(acc, vis[i].off, rs[i].bytes), Zeros(t.size), [i \in 1..Len(vis) |-> i])
                          on(x) == IF IsB(x) THEN x.B = 1 ELSE ~BigIsZero(x.i)
                          withb == FoldLeft(LAMBDA acc, i : SetBit(acc, t.bits[i].off, t.bits[i].bit, on(bs[i].v)), withm, [i \in 1..Len(bs) |-> i])
                      IN In(withb)
    [] t.k = "dt" ->
         IF ~(IsL(v) /\ Len(v.l) = 2 /\ IsI(v.l[1]) /\ IsI(v.l[2])) THEN OutR
         ELSE IF FitsUnsigned(v.l[1].i, 4) /\ FitsUnsigned(v.l[2].i, 2) THEN In(BigToLE(v.l[1].i, 4) \o BigToLE(v.l[2].i, 2)) ELSE OutR
    [] t.k = "ip" ->
         IF IsI(v) \/ IsBy(v) THEN UnspecR              \* the address class also takes integers / packed bytes
         ELSE IF ~IsS(v) THEN OutR
         ELSE LET r == ParseQuad(v.s) IN IF r.ok THEN In(r.bytes) ELSE (IF \E i \in 1..Len(v.s) : v.s[i] = 48 THEN UnspecR ELSE OutR)

Enc(t, v) == EncR(t, v).bytes

(* ------------------------------------------- decoding ------------------------------------------- *)
(* DecR(t, b, p) = [st, val, p]: decode one value of type t from b starting at 1-based position p.          *)
(*   st "ok"        value and next position                                                                *)
(*      "empty"     no byte remains where the value should start                                           *)
(*      "inner"     a later part (member, element, character data) starts where no byte remains            *)
(*      "short"     a part was begun and cannot be completed                                               *)
(*      "malformed" the bytes are not an encoding of the type                                              *)
(*      "unspec"    outside what the reference fixes (UTF-8 beyond ASCII in the 1-byte STRINGN form)       *)
Avail(b, p) == Len(b) - p + 1
Need(b, p, n) == IF Avail(b, p) >= n THEN "ok" ELSE IF Avail(b, p) <= 0 THEN "empty" ELSE "short"
Fail(st, p) == [st |-> st, val |-> NoVal, p |-> p]
Ok(val, p)  == [st |-> "ok", val |-> val, p |-> p]
Later(st)   == IF st = "empty" THEN "inner" ELSE st            \* the same failure, not at the value's first byte

FixedWidth(t) == CASE t.k = "int" -> t.w [] t.k = "bool" -> 1 [] t.k = "real" -> t.w [] t.k = "bits" -> t.w
                   [] t.k = "dt" -> 6 [] t.k = "ip" -> 4 [] OTHER -> 0
BitsVals(b, p, w) == [j \in 1..(8 * w) |-> MkB(BitOf(b[p + ((j - 1) \div 8)], (j - 1) % 8) = 1)]
DecFixed(t, b, p) ==            \* caller guarantees the bytes are there
    CASE t.k = "int"  -> MkI(LEToBig(SubSeq(b, p, p + t.w - 1), t.s = 1))
      [] t.k = "bool" -> MkB(b[p] # 0)
      [] t.k = "real" -> (IF t.w = 4 THEN F32Dec(SubSeq(b, p, p + 3)) ELSE F64Dec(SubSeq(b, p, p + 7)))
      [] t.k = "bits" -> MkL(BitsVals(b, p, t.w))
      [] t.k = "dt"   -> MkL(<<MkI(LEToBig(SubSeq(b, p, p + 3), FALSE)), MkI(LEToBig(SubSeq(b, p + 4, p + 5), FALSE))>>)
      [] t.k = "ip"   -> MkS(QuadText(b, p))

ReadLen(b, p, lw) == CASE lw = 1 -> b[p] [] lw = 2 -> U16(b, p) [] lw = 4 -> (IF FitsInt31(b, p) THEN U32(b, p) ELSE 2147483647)

RECURSIVE DecR(_, _, _)
RECURSIVE DecRep(_, _, _, _, _)      \* (el, n, b, p, p0): n elements one after another; p0 = where the whole value starts
RECURSIVE DecAll(_, _, _, _)         \* (el, b, p, acc): elements until the buffer ends
RECURSIVE DecSeq(_, _, _, _, _)      \* (members, i, b, p, p0): struct members from index i; p0 = where the struct starts

DecR(t, b, p) ==
  IF FixedWidth(t) > 0
  THEN LET st == Need(b, p, FixedWidth(t)) IN
       IF st = "ok" THEN Ok(DecFixed(t, b, p), p + FixedWidth(t))
       ELSE IF t.k = "dt" /\ Avail(b, p) = 4 THEN Fail("inner", p)      \* two values: the second starts at the end
       ELSE Fail(st, p)
  ELSE
  CASE t.k = "str" ->
         LET st == Need(b, p, t.lw) IN
         IF st # "ok" THEN Fail(st, p)
         ELSE LET n == ReadLen(b, p, t.lw)   q == p + t.lw   nb == n * t.cw IN
              IF n = 0 THEN Ok(MkS(<<>>), q)
              ELSE IF n > 1073741823 \/ Avail(b, q) < nb THEN Fail(IF Avail(b, q) <= 0 THEN "inner" ELSE "short", p)
              ELSE IF t.cw = 1 THEN Ok(MkS(SubSeq(b, q, q + nb - 1)), q + nb)
              ELSE LET r == Utf16Dec(SubSeq(b, q, q + nb - 1)) IN IF r.ok THEN Ok(MkS(r.cps), q + nb) ELSE Fail("malformed", p)
    [] t.k = "fixedstr" ->
         LET st == Need(b, p, t.lw) IN
         IF st # "ok" THEN Fail(st, p)
         ELSE LET n == ReadLen(b, p, t.lw)   q == p + t.lw IN
              IF Avail(b, q) < t.cap THEN Fail(IF Avail(b, q) <= 0 THEN "inner" ELSE "short", p)
              ELSE Ok(MkS(SubSeq(b, q, q + (IF n < t.cap THEN n ELSE t.cap) - 1)), q + t.cap)
    [] t.k = "stringn" ->
         LET st == Need(b, p, 4) IN
         IF st # "ok" THEN Fail(IF st = "short" /\ Avail(b, p) = 2 THEN "inner" ELSE st, p)
         ELSE LET cw == U16(b, p)   n == U16(b, p + 2)   q == p + 4 IN
              IF cw \notin {1, 2, 4} THEN Fail("malformed", p)
              ELSE IF n = 0 THEN Ok(MkS(<<>>), q)
              ELSE IF Avail(b, q) < n * cw THEN Fail(IF Avail(b, q) <= 0 THEN "inner" ELSE "short", p)
              ELSE LET raw == SubSeq(b, q, q + n * cw - 1) IN
                   IF cw = 1 THEN (IF AsciiOk(raw) THEN Ok(MkS(raw), q + n) ELSE Fail("unspec", p))
                   ELSE LET r == IF cw = 2 THEN Utf16Dec(raw) ELSE Utf32Dec(raw)
                        IN IF r.ok THEN Ok(MkS(r.cps), q + n * cw) ELSE Fail("malformed", p)
    [] t.k = "nbytes" ->
         IF t.n = -1 THEN (IF Avail(b, p) <= 0 THEN Fail("empty", p) ELSE Ok([b |-> SubSeq(b, p, Len(b))], Len(b) + 1))
         ELSE LET st == Need(b, p, t.n) IN IF st = "ok" THEN Ok([b |-> SubSeq(b, p, p + t.n - 1)], p + t.n) ELSE Fail(st, p)
    [] t.k = "arr" ->
         IF t.lk = "fixed" THEN DecRep(t.el, t.n, b, p, p)
         ELSE IF t.lk = "derived"
              THEN LET r == DecR(t.lt, b, p) IN
                   IF r.st # "ok" THEN Fail(r.st, p)
                   ELSE IF ~BigIsSmall(r.val.i) THEN Fail("short", p)
                   ELSE DecRep(t.el, BigToSmall(r.val.i), b, r.p, -1)
              ELSE DecAll(t.el, b, p, <<>>)
    [] t.k = "struct" -> DecSeq(t.m, 1, b, p, p)
    [] t.k = "structtag" ->
         IF Avail(b, p) <= 0 THEN Fail("empty", p)
         ELSE IF Avail(b, p) < t.size THEN Fail("inner", p)
         ELSE LET win == SubSeq(b, p, p + t.size - 1)
                  rs  == [i \in 1..Len(t.m) |-> DecR(t.m[i].t, win, t.m[i].off + 1)]
                  vis == {i \in 1..Len(t.m) : ~\E j \in 1..Len(t.priv) : t.priv[j] = t.m[i].n}
                  visb == {i \in 1..Len(t.bits) : ~\E j \in 1..Len(t.priv) : t.priv[j] = t.bits[i].n}
              IN IF \E i \in 1..Len(t.m) : rs[i].st # "ok" THEN Fail("unspec", p)
                 ELSE Ok(MkD([i \in 1..Cardinality(vis) |-> LET k == SetToSortSeq(vis, LAMBDA x, y : x < y)[i] IN <<MkS(t.m[k].n), rs[k].val>>]
                             \o [i \in 1..Cardinality(visb) |-> LET k == SetToSortSeq(visb, LAMBDA x, y : x < y)[i]
                                                               IN <<MkS(t.bits[k].n), MkB(BitOf(win[t.bits[k].off + 1], t.bits[k].bit) = 1)>>]),
                         p + t.size)

\* a failure "empty" stays "empty" only while nothing of the enclosing value has been consumed
AtStart(st, p, p0) == IF st = "empty" /\ p # p0 THEN "inner" ELSE st
DecRep(el, n, b, p, p0) ==
    LET w == FixedWidth(el)  first == p = p0 IN
    IF w > 0
    THEN (IF Avail(b, p) >= n * w
          THEN LET vals == [i \in 1..n |-> DecFixed(el, b, p + (i - 1) * w)]
               IN Ok(MkL(IF el.k = "bits" THEN FlattenSeq([i \in 1..n |-> vals[i].l]) ELSE vals), p + n * w)
          ELSE LET k == IF Avail(b, p) <= 0 THEN 0 ELSE Avail(b, p) \div w          \* whole elements present
                   st == IF Avail(b, p) - k * w > 0 THEN "short" ELSE IF k = 0 /\ first THEN "empty" ELSE "inner"
               IN Fail(st, p))
    ELSE IF n = 0 THEN Ok(MkL(<<>>), p)
    ELSE LET r == DecR(el, b, p) IN
         IF r.st # "ok" THEN Fail(AtStart(r.st, p, p0), p)
         ELSE LET rest == DecRep(el, n - 1, b, r.p, p0) IN
              IF rest.st # "ok" THEN Fail(rest.st, p) ELSE Ok(MkL(<<r.val>> \o rest.val.l), rest.p)

DecAll(el, b, p, acc) ==
    LET w == FixedWidth(el) IN
    IF w > 0
    THEN LET a == IF Avail(b, p) <= 0 THEN 0 ELSE Avail(b, p)   k == a \div w IN
         IF a % w # 0 THEN Fail("short", p)
         ELSE LET vals == [i \in 1..k |-> DecFixed(el, b, p + (i - 1) * w)]
              IN Ok(MkL(IF el.k = "bits" THEN FlattenSeq([i \in 1..k |-> vals[i].l]) ELSE vals), p + a)
    ELSE LET r == DecR(el, b, p) IN
         IF r.st = "empty" THEN Ok(MkL(acc), p)
         ELSE IF r.st = "malformed" \/ r.st = "unspec" THEN Fail(r.st, p)
         ELSE IF r.st # "ok" THEN Fail("short", p)
         ELSE IF r.p <= p THEN Fail("malformed", p)            \* zero-width element: outside the domain
         ELSE DecAll(el, b, r.p, Append(acc, r.val))

DecSeq(m, i, b, p, p0) ==
    IF i > Len(m) THEN Ok(MkD(<<>>), p)
    ELSE LET r == DecR(m[i].t, b, p) IN
         IF r.st # "ok" THEN Fail(AtStart(r.st, p, p0), p)
         ELSE LET rest == DecSeq(m, i + 1, b, r.p, p0) IN
              IF rest.st # "ok" THEN Fail(rest.st, p)
              ELSE Ok(MkD((IF m[i].n = <<>> THEN <<>> ELSE <<<<MkS(m[i].n), r.val>>>>) \o rest.val.d), rest.p)

Dec(t, b) == DecR(t, b, 1)

(* --------------------------------- CIP type codes (Vol 1, C-6.1) --------------------------------- *)
IntT(w, s) == [k |-> "int", w |-> w, s |-> s]
CodeType(c) ==
    CASE c = 193 -> [k |-> "bool"]
      [] c = 194 -> IntT(1, 1) [] c = 195 -> IntT(2, 1) [] c = 196 -> IntT(4, 1) [] c = 197 -> IntT(8, 1)
      [] c = 198 -> IntT(1, 0) [] c = 199 -> IntT(2, 0) [] c = 200 -> IntT(4, 0) [] c = 201 -> IntT(8, 0)
      [] c = 202 -> [k |-> "real", w |-> 4] [] c = 203 -> [k |-> "real", w |-> 8]
      [] c = 204 -> IntT(4, 1)                      \* STIME
      [] c = 205 -> IntT(2, 0)                      \* DATE
      [] c = 206 -> IntT(4, 0)                      \* TIME_OF_DAY
      [] c = 207 -> [k |-> "dt"]                    \* DATE_AND_TIME
      [] c = 208 -> [k |-> "str", lw |-> 2, cw |-> 1]   \* STRING
      [] c = 209 -> [k |-> "bits", w |-> 1] [] c = 210 -> [k |-> "bits", w |-> 2]
      [] c = 211 -> [k |-> "bits", w |-> 4] [] c = 212 -> [k |-> "bits", w |-> 8]
      [] c = 213 -> [k |-> "str", lw |-> 2, cw |-> 2]   \* STRING2
      [] c = 214 -> IntT(4, 1)                      \* FTIME
      [] c = 215 -> IntT(8, 1)                      \* LTIME
      [] c = 216 -> IntT(2, 1)                      \* ITIME
      [] c = 217 -> [k |-> "stringn"]
      [] c = 218 -> [k |-> "str", lw |-> 1, cw |-> 1]   \* SHORT_STRING
      [] c = 219 -> IntT(4, 1)                      \* TIME
      [] c = 221 -> [k |-> "bits", w |-> 2]         \* ENGUNIT
      [] OTHER -> [k |-> "none"]
=============================================================================
