------------------------------- MODULE EnumMap -------------------------------
(* Semantics of a case-insensitive, bidirectional code table (property C19).                           *)
(* A table T is a record                                                                               *)
(*   names : sequence of member names, each a sequence of code points, exactly as declared             *)
(*   vals  : sequence of opaque value tokens (strings), one per member                                 *)
(*   rkeys : sequence of reverse-lookup key tokens, one per member (the value itself, or e.g. the      *)
(*           CIP type code for the data-type table)                                                    *)
(*   bidir : whether codes resolve back to names                                                       *)
(* A key K is a record [s |-> code points or <<>>, isstr |-> BOOLEAN, v |-> token of the key as value] *)
EXTENDS Naturals, Sequences, FiniteSets

LowerCp(c) == IF c >= 65 /\ c <= 90 THEN c + 32 ELSE c
Lower(s)   == [i \in 1..Len(s) |-> LowerCp(s[i])]

Members(T)     == 1..Len(T.names)
ByName(T, K)   == IF K.isstr THEN {i \in Members(T) : Lower(T.names[i]) = Lower(K.s)} ELSE {}
ByCode(T, tok) == IF T.bidir THEN {i \in Members(T) : T.rkeys[i] = tok} ELSE {}

\* What item access may return: value tokens (forward) and lower-cased names (reverse).
FwdVals(T, K)  == {T.vals[i] : i \in ByName(T, K)}
RevNames(T, K) == {Lower(T.names[i]) : i \in ByCode(T, K.v)}
Present(T, K)  == ByName(T, K) # {} \/ ByCode(T, K.v) # {}

\* outcome O: [kind |-> "res", tok, isstr, s] | [kind |-> "missing"] | [kind |-> "bool", b] | [kind |-> "exc"]
\* "missing" = KeyError for item access, the default for get.  A result is acceptable when it is the value
\* declared under that name (forward) or, for a code, SOME member name (any letter case) carrying the code.
LookupOk(T, K, O) ==
    IF ~Present(T, K) THEN O.kind = "missing"
    ELSE /\ O.kind = "res"
         /\ \/ O.tok \in FwdVals(T, K)
            \/ O.isstr = 1 /\ Lower(O.s) \in RevNames(T, K)

ContainsOk(T, K, O) == O.kind = "bool" /\ (O.b = 1) = Present(T, K)

\* reply service byte -> request service name
FromReplyOk(T, tok, O) ==
    IF ByCode(T, tok) = {} THEN O.kind = "missing"
    ELSE O.kind = "res" /\ O.isstr = 1 /\ Lower(O.s) \in {Lower(T.names[i]) : i \in ByCode(T, tok)}

\* data-type code -> type carrying that code
TypeOfCodeOk(T, tok, O) ==
    IF ByCode(T, tok) = {} THEN O.kind = "missing"
    ELSE O.kind = "res" /\ O.tok \in {T.vals[i] : i \in ByCode(T, tok)}

\* ---- status texts -------------------------------------------------------------------------------
HexDigit(d) == IF d < 10 THEN 48 + d ELSE 87 + d
Hex2(n)     == <<HexDigit(n \div 16), HexDigit(n % 16)>>
ContainsSeq(s, sub) ==
    \/ Len(sub) = 0
    \/ \E i \in 1..(Len(s) - Len(sub) + 1) : SubSeq(s, i, i + Len(sub) - 1) = sub
\* text for a status byte: the table's text when it has one, otherwise something naming the hex code
StatusTextOk(n, has, ttext, text) ==
    /\ Len(text) > 0
    /\ IF has THEN text = ttext ELSE ContainsSeq(Lower(text), Hex2(n))
ExtTextOk(ttext, text) == ContainsSeq(text, ttext)
\* Reference meaning of the CIP general status codes (CIP Vol 1, appendix B), as one lower-case key word per code that any
\* wording of that meaning contains ("attribute not supported" -> attribute, "too much data" -> much, ...).  Independent of
\* the library's own table: a text filed under the wrong code does not carry the key word of the code it is filed under.
StatusKeyword(n) ==
    CASE n = 1 -> <<99, 111, 110, 110, 101, 99, 116, 105, 111, 110>>
      [] n = 2 -> <<114, 101, 115, 111, 117, 114, 99, 101>>
      [] n = 3 -> <<118, 97, 108, 117, 101>>
      [] n = 4 -> <<112, 97, 116, 104>>
      [] n = 5 -> <<100, 101, 115, 116, 105, 110, 97, 116, 105, 111, 110>>
      [] n = 7 -> <<108, 111, 115, 116>>
      [] n = 8 -> <<115, 101, 114, 118, 105, 99, 101>>
      [] n = 9 -> <<97, 116, 116, 114, 105, 98, 117, 116, 101>>
      [] n = 10 -> <<97, 116, 116, 114, 105, 98, 117, 116, 101>>
      [] n = 11 -> <<97, 108, 114, 101, 97, 100, 121>>
      [] n = 12 -> <<99, 111, 110, 102, 108, 105, 99, 116>>
      [] n = 13 -> <<101, 120, 105, 115, 116>>
      [] n = 14 -> <<115, 101, 116, 116, 97, 98, 108, 101>>
      [] n = 16 -> <<99, 111, 110, 102, 108, 105, 99, 116>>
      [] n = 17 -> <<108, 97, 114, 103, 101>>
      [] n = 18 -> <<102, 114, 97, 103, 109, 101, 110, 116, 97, 116, 105, 111, 110>>
      [] n = 19 -> <<100, 97, 116, 97>>
      [] n = 20 -> <<97, 116, 116, 114, 105, 98, 117, 116, 101>>
      [] n = 21 -> <<109, 117, 99, 104>>
      [] n = 22 -> <<101, 120, 105, 115, 116>>
      [] n = 26 -> <<108, 97, 114, 103, 101>>
      [] n = 27 -> <<108, 97, 114, 103, 101>>
      [] n = 28 -> <<97, 116, 116, 114, 105, 98, 117, 116, 101>>
      [] n = 29 -> <<97, 116, 116, 114, 105, 98, 117, 116, 101>>
      [] n = 30 -> <<115, 101, 114, 118, 105, 99, 101>>
      [] n = 34 -> <<114, 101, 112, 108, 121>>
      [] n = 37 -> <<107, 101, 121>>
      [] n = 39 -> <<97, 116, 116, 114, 105, 98, 117, 116, 101>>
      [] n = 40 -> <<109, 101, 109, 98, 101, 114>>
      [] n = 41 -> <<109, 101, 109, 98, 101, 114>>
      [] OTHER -> <<>>
StatusMeaningOk(n, text) == StatusKeyword(n) = <<>> \/ ContainsSeq(Lower(text), StatusKeyword(n)) \/ ContainsSeq(Lower(text), Hex2(n))
==============================================================================
