------------------------------- MODULE EnumMap -------------------------------
(* Semantics of a case-insensitive, bidirectional code table (property C19).                           *)
(* A table T is a record                                                                               *)
(*   names : sequence of member names, each a sequence of code points, exactly as declared             *)
(*   vals  : sequence of opaque value tokens (strings), one per member                                 *)
(*   rkeys : sequence of reverse-lookup key tokens, one per member (the value itself, or e.g. the      *)
(*           CIP type code for the data-type table)                                                    *)
(*   bidir : whether codes resolve back to names                                                       *)
(* A key K is a record [s |-> code points or <<>>, isstr |-> BOOLEAN, v |-> token of the key as value] *)
EXTENDS Naturals, Sequences, FiniteSets

LowerCp(c) == IF c >= 65 /\ c <= 90 THEN c + 32 ELSE c
Lower(s)   == [i \in 1..Len(s) |-> LowerCp(s[i])]

Members(T)     == 1..Len(T.names)
ByName(T, K)   == IF K.isstr THEN {i \in Members(T) : Lower(T.names[i]) = Lower(K.s)} ELSE {}
ByCode(T, tok) == IF T.bidir THEN {i \in Members(T) : T.rkeys[i] = tok} ELSE {}

\* What item access may return: value tokens (forward) and lower-cased names (reverse).
FwdVals(T, K)  == {T.vals[i] : i \in ByName(T, K)}
RevNames(T, K) == {Lower(T.names[i]) : i \in ByCode(T, K.v)}
Present(T, K)  == ByName(T, K) # {} \/ ByCode(T, K.v) # {}

\* outcome O: [kind |-> "res", tok, isstr, s] | [kind |-> "missing"] | [kind |-> "bool", b] | [kind |-> "exc"]
\* "missing" = KeyError for item access, the default for get.  A result is acceptable when it is the value
\* declared under that name (forward) or, for a code, SOME member name (any letter case) carrying the code.
LookupOk(T, K, O) ==
    IF ~Present(T, K) THEN O.kind = "missing"
    ELSE /\ O.kind = "res"
         /\ \/ O.tok \in FwdVals(T, K)
            \/ O.isstr = 1 /\ Lower(O.s) \in RevNames(T, K)

ContainsOk(T, K, O) == O.kind = "bool" /\ (O.b = 1) = Present(T, K)

\* reply service byte -> request service name
FromReplyOk(T, tok, O) ==
    IF ByCode(T, tok) = {} THEN O.kind = "missing"
    ELSE O.kind = "res" /\ O.isstr = 1 /\ Lower(O.s) \in {Lower(T.names[i]) : i \in ByCode(T, tok)}

\* data-type code -> type carrying that code
TypeOfCodeOk(T, tok, O) ==
    IF ByCode(T, tok) = {} THEN O.kind = "missing"
    ELSE O.kind = "res" /\ O.tok \in {T.vals[i] : i \in ByCode(T, tok)}

\* ---- status texts -------------------------------------------------------------------------------
HexDigit(d) == IF d < 10 THEN 48 + d ELSE 87 + d
Hex2(n)     == <<HexDigit(n \div 16), HexDigit(n % 16)>>
ContainsSeq(s, sub) ==
    \/ Len(sub) = 0
    \/ \E i \in 1..(Len(s) - Len(sub) + 1) : SubSeq(s, i, i + Len(sub) - 1) = sub
\* text for a status byte: the table's text when it has one, otherwise something naming the hex code
StatusTextOk(n, has, ttext, text) ==
    /\ Len(text) > 0
    /\ IF has THEN text = ttext ELSE ContainsSeq(Lower(text), Hex2(n))
ExtTextOk(ttext, text) == ContainsSeq(text, ttext)
==============================================================================
