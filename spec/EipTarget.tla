------------------------------ MODULE EipTarget ------------------------------
(* The EtherNet/IP target as the properties see it: session table, connection table (negotiated size, last      *)
(* sequence count, reply cache), connection manager services, identity / program-name / wall-clock objects,      *)
(* scripted generic objects.  Every operator is a pure step function so that TraceSession can replay recorded    *)
(* frames; the same definitions are instantiated with small constants by the design models.                      *)
EXTENDS Encap, EPath

Zero4 == <<0, 0, 0, 0>>
B1(n) == <<0, n>>                                   \* small big-integer literal
Seg(lt, n) == Log(lt, SmallToBig(n))
IsCM(segs) == Len(segs) = 2 /\ SegEq(segs[1], Seg("class", 6)) /\ SegEq(segs[2], Seg("instance", 1))
ClassOf(segs) == IF Len(segs) >= 1 /\ segs[1].k = "log" /\ segs[1].lt = "class" /\ BigIsSmall(segs[1].v) THEN BigToSmall(segs[1].v) ELSE -1
InstOf(segs)  == IF Len(segs) >= 2 /\ segs[2].k = "log" /\ segs[2].lt = "instance" /\ BigIsSmall(segs[2].v) THEN BigToSmall(segs[2].v) ELSE -1

(* ---------------------------------- identity object (CIP Vol 1, 5-2) ---------------------------------- *)
IdentityCore(i) == LE(i.vendor, 2) \o LE(i.product_type, 2) \o LE(i.product_code, 2) \o <<i.rev_major, i.rev_minor>>
                   \o i.status \o i.serial_b \o <<Len(i.name)>> \o i.name
ListIdentityItem(i) == LE(1, 2) \o <<0, 2, 175, 18>> \o i.ip \o Zeros(8) \o IdentityCore(i) \o <<i.state>>

(* --------------------------- Forward Open / Large Forward Open / Forward Close --------------------------- *)
\* request data -> [ok, large, size, tocid, serial, cpath]
FOParse(svc, d) ==
    LET large == svc = 91
        q == IF large THEN 40 ELSE 36                                    \* 1-based index of the path size byte
    IN IF Len(d) < q THEN [ok |-> FALSE, large |-> large, size |-> 0, tocid |-> <<>>, serial |-> <<>>, cpath |-> <<>>, exact |-> FALSE]
       ELSE LET size == IF large THEN U16(d, 27) ELSE (U16(d, 27) % 512)
                n == 2 * d[q]
            IN [ok |-> TRUE, large |-> large, size |-> size, tocid |-> SubSeq(d, 7, 10), serial |-> SubSeq(d, 11, 18),
                cpath |-> SubSeq(d, q + 1, IF q + n <= Len(d) THEN q + n ELSE Len(d)), exact |-> q + n = Len(d)]
FOReplyOk(svc, cid, fo) == MRReply(svc, 0, <<>>, cid \o fo.tocid \o fo.serial \o <<1, 64, 32, 0>> \o <<1, 64, 32, 0>> \o <<0, 0>>)
FOReplyRefused(svc) == IF svc = 91 THEN MRReply(svc, 8, <<>>, <<>>) ELSE MRReply(svc, 1, <<256>>, <<>>)
FCParse(d) == IF Len(d) < 12 THEN [ok |-> FALSE, serial |-> <<>>, cpath |-> <<>>, exact |-> FALSE]
              ELSE [ok |-> TRUE, serial |-> SubSeq(d, 3, 10), cpath |-> SubSeq(d, 13, Len(d)), exact |-> 12 + 2 * d[11] = Len(d) /\ d[12] = 0]

(* ------------------------------------- Unconnected Send (3-5.5.4) ------------------------------------- *)
\* [ok, why, emb, route]   why names a C14 clause
UCSParse(d) ==
    IF Len(d) < 4 THEN [ok |-> FALSE, why |-> "C14:ucsend-length", emb |-> <<>>, route |-> <<>>]
    ELSE LET n == U16(d, 3)  pad == n % 2  q == 5 + n + pad IN
         IF q + 1 > Len(d) THEN [ok |-> FALSE, why |-> "C14:ucsend-length", emb |-> <<>>, route |-> <<>>]
         ELSE IF pad = 1 /\ d[4 + n + 1] # 0 THEN [ok |-> FALSE, why |-> "C14:ucsend-pad", emb |-> <<>>, route |-> <<>>]
         ELSE IF d[q + 1] # 0 THEN [ok |-> FALSE, why |-> "C14:route", emb |-> <<>>, route |-> <<>>]
         ELSE IF q + 1 + 2 * d[q] # Len(d) THEN [ok |-> FALSE, why |-> "C14:ucsend-length", emb |-> <<>>, route |-> <<>>]
         ELSE [ok |-> TRUE, why |-> "", emb |-> SubSeq(d, 5, 4 + n), route |-> SubSeq(d, q + 2, Len(d))]
==============================================================================
