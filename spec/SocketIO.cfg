SPECIFICATION Spec
CONSTANTS H = 24  LenAt = 4  RS = 256  MaxBody = 8  MaxMsg = 7  MaxCalls = 2  GenChunks = {}  MaxParts = 0  Gen = FALSE
INVARIANT ExactFrame
INVARIANT NoPartialReturn
INVARIANT FailsWithCommError
INVARIANT NoForeign
INVARIANT SendInOrder
INVARIANT SendComplete
PROPERTY Terminates
PROPERTY Monotone
PROPERTY FreshCall
CHECK_DEADLOCK FALSE
