------------------------------ MODULE EncapModel ------------------------------
(* R1 for C11: the strict frame parser accepts exactly the well-formed request frames: every command x body       *)
(* length 0..3 x boundary handles / connection ids round-trips, and every single-field malformation is rejected    *)
(* with the clause that names the field.                                                                            *)
EXTENDS Encap

Handles == {<<0, 0, 0, 0>>, <<1, 0, 0, 0>>, <<0, 0, 0, 128>>, <<255, 255, 255, 255>>}
Ctx == <<95, 112, 121, 99, 111, 109, 109, 95>>
Bodies == {<<>>, <<7>>, <<7, 8>>, <<1, 2, 3>>}
Kinds == {"register", "unregister", "listid", "rr", "unit"}

BuildReq(kind, h, cid, item) ==
    CASE kind = "register"   -> Header(CmdRegister, 4, h, Zeros(4), Ctx) \o <<1, 0, 0, 0>>
      [] kind = "unregister" -> Header(CmdUnregister, 0, h, Zeros(4), Ctx)
      [] kind = "listid"     -> Header(CmdListId, 0, h, Zeros(4), Ctx)
      [] kind = "rr"         -> LET cpf == Zeros(4) \o LE(10, 2) \o LE(2, 2) \o LE(0, 2) \o LE(0, 2) \o LE(178, 2) \o LE(Len(item), 2) \o item
                                IN Header(CmdRRData, Len(cpf), h, Zeros(4), Ctx) \o cpf
      [] kind = "unit"       -> LET it == <<5, 0>> \o item
                                    cpf == Zeros(4) \o LE(10, 2) \o LE(2, 2) \o LE(161, 2) \o LE(4, 2) \o cid \o LE(177, 2) \o LE(Len(it), 2) \o it
                                IN Header(CmdUnitData, Len(cpf), h, Zeros(4), Ctx) \o cpf

VARIABLES kind, h, cid, item
Init == kind \in Kinds /\ h \in Handles /\ cid \in Handles /\ item \in Bodies
Next == UNCHANGED <<kind, h, cid, item>>
Spec == Init /\ [][Next]_<<kind, h, cid, item>>

F == BuildReq(kind, h, cid, item)
Set(b, i, v) == [j \in 1..Len(b) |-> IF j = i THEN v ELSE b[j]]

RoundTrip == LET p == ParseFrame(F) IN
             /\ p.ok /\ p.kind = kind /\ p.handle = h
             /\ (kind = "rr" => p.item = item)
             /\ (kind = "unit" => p.cid = cid /\ p.item = <<5, 0>> \o item)
LengthStrict  == ParseFrame(F \o <<0>>).why = "C11:length" /\ (Len(F) > 24 => ParseFrame(SubSeq(F, 1, Len(F) - 1)).why = "C11:length")
CommandStrict == ParseFrame(Set(F, 1, 119)).why = "C11:command"
StatusStrict  == ParseFrame(Set(F, 9, 1)).why = "C11:status-options" /\ ParseFrame(Set(F, 24, 1)).why = "C11:status-options"
ItemsStrict   == kind \in {"rr", "unit"} =>
                   /\ ParseFrame(Set(F, 31, 3)).why = "C11:cpf-count"
                   /\ ParseFrame(Set(F, 25, 1)).why = "C11:interface"
                   /\ ParseFrame(Set(F, 33, IF kind = "rr" THEN 161 ELSE 0)).why = "C11:addr-item"
                   /\ ParseFrame(Set(F, IF kind = "rr" THEN 39 ELSE 43, F[IF kind = "rr" THEN 39 ELSE 43] + 1)).why = "C11:data-item-length"
ShortRejected == \A n \in 0..23 : ~ParseFrame(SubSeq(F, 1, n)).ok
==============================================================================
