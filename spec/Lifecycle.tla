------------------------------ MODULE Lifecycle ------------------------------
(* Property C10.  Design = the connection lifecycle of pycomm3.cip_driver (open / _register_session /              *)
(* with_forward_open / _forward_open / close / _forward_close / _un_register_session) transcribed step by step:     *)
(* every raw send and every raw receive is one action and may fail (raise) or find the peer gone (eof).             *)
(* Contract = what the target and the user may rely on, recorded in `viol` the moment it would be broken.           *)
(* Environment = call history, target policy, one fault at any I/O position.                                        *)
EXTENDS Integers, Sequences, FiniteSets, TLC

CONSTANTS MaxCalls,       \* length of the call history
          MaxIO,          \* fault positions 1..MaxIO are explored (plus "no fault")
          TwoFaults,      \* TRUE: a second fault at a later I/O position is explored as well
          MaxPolicyChanges, \* how often the target may change its admission policy between calls (busy now, free later)
          Gen,            \* TRUE: carry the history and print terminal behaviours (R2)
          FreshTriad      \* TRUE (the library): open() draws new connection serial numbers; FALSE: drawn once per driver object

Calls    == {"open", "close", "msgC", "msgU"}
Policies == {"LargeOK", "LargeRefused", "AllRefused", "SessionRefused"}

VARIABLES policy, fault,          \* environment choices, fixed at Init: fault = [kind, at] or [kind |-> "none", at |-> 0]
          io, gone,               \* raw I/O operations so far; peer vanished
          drv,                    \* driver: [sock, opened, session, connected, ext, size, cid, triad]
          tgt,                    \* target: [sessions, conns (set of [cid, sess, size, triad]), next, old, ntriad]
                                  \*   old = serial-number triads of connections still held when a close() of the driver returned
          told,                   \* connection ids whose Forward Open reply reached the driver
          call, pc, err,          \* current call, control point, error collected by close()
          ncalls, hist, result,   \* calls finished, history (Gen), outcome of the last call
          closeFault, viol,
          pch                     \* policy changes so far
vars == <<policy, fault, io, gone, drv, tgt, told, call, pc, err, ncalls, hist, result, closeFault, viol, pch>>

NoFault == [kind |-> "none", at |-> 0, kind2 |-> "none", at2 |-> 0]
Init == /\ policy \in Policies
        /\ fault \in {NoFault} \cup [kind : {"raise", "eof"}, at : 1..MaxIO, kind2 : {"none"}, at2 : {0}]
                     \cup (IF TwoFaults THEN {f \in [kind : {"raise"}, at : 1..MaxIO, kind2 : {"raise", "eof"}, at2 : 1..MaxIO] : f.at < f.at2} ELSE {})
        /\ io = 0 /\ gone = FALSE
        /\ drv = [sock |-> FALSE, opened |-> FALSE, session |-> 0, connected |-> FALSE, ext |-> TRUE, size |-> 4000, cid |-> 0, triad |-> 0]
        /\ tgt = [sessions |-> {}, conns |-> {}, next |-> 1, old |-> {}, ntriad |-> 0]
        /\ told = {} /\ call = "idle" /\ pc = "idle" /\ err = FALSE
        /\ ncalls = 0 /\ hist = <<>> /\ result = "none" /\ closeFault = FALSE /\ viol = "" /\ pch = 0

(* ------------------------------------------------ raw I/O ------------------------------------------------ *)
\* one raw operation: TRUE when it succeeds; the fault fires exactly at its position, a vanished peer fails always
IoFails == gone \/ io + 1 = fault.at \/ io + 1 = fault.at2
IoStep  == /\ io' = io + 1
           /\ gone' = (gone \/ (io + 1 = fault.at /\ fault.kind = "eof") \/ (io + 1 = fault.at2 /\ fault.kind2 = "eof"))
           /\ closeFault' = (closeFault \/ (IoFails /\ call = "close"))

Finish(res) == /\ call' = "idle" /\ pc' = "idle" /\ result' = res /\ ncalls' = ncalls + 1
               /\ hist' = IF Gen THEN Append(hist, call) ELSE hist
               /\ err' = FALSE

(* ------------------------------------------------ calls ------------------------------------------------ *)
Begin(c) == /\ call = "idle" /\ ncalls < MaxCalls /\ viol = ""
            /\ call' = c /\ pc' = (CASE c = "open" -> "o1" [] c = "close" -> "c1" [] c = "msgC" -> "m1" [] c = "msgU" -> "u1")
            /\ closeFault' = FALSE
            /\ UNCHANGED <<policy, fault, io, gone, drv, tgt, told, err, ncalls, hist, result, viol>>

\* ---- open(): socket, connect, register session; any exception becomes CommError
\* the connection serial numbers (T->O connection id, originator serial) drawn by open(): never seen before when FreshTriad
Drawn == IF FreshTriad THEN tgt.ntriad + 1 ELSE drv.triad
O1 == /\ pc = "o1"
      /\ IF drv.opened THEN Finish("true") /\ UNCHANGED <<drv>>
         ELSE IF drv.session # 0 THEN Finish("true") /\ drv' = [drv EXCEPT !.sock = TRUE, !.opened = TRUE, !.triad = Drawn]     \* _register_session returns the old id
         ELSE pc' = "o2" /\ drv' = [drv EXCEPT !.sock = TRUE, !.opened = TRUE, !.triad = Drawn] /\ UNCHANGED <<call, result, ncalls, hist, err>>
      \* (the counter of drawn values is kept with the target only to keep the state small: it is the environment's randomness)
      /\ tgt' = IF drv.opened \/ ~FreshTriad THEN tgt ELSE [tgt EXCEPT !.ntriad = @ + 1]
      /\ UNCHANGED <<policy, fault, io, gone, told, closeFault, viol>>
O2 == /\ pc = "o2" /\ IoStep                                       \* send RegisterSession
      /\ IF IoFails THEN Finish("CommError") /\ UNCHANGED tgt
         ELSE /\ pc' = "o3" /\ UNCHANGED <<call, result, ncalls, hist, err>>
              /\ tgt' = IF policy = "SessionRefused" THEN tgt ELSE [tgt EXCEPT !.sessions = @ \cup {tgt.next}, !.next = @ + 1]
      /\ UNCHANGED <<policy, fault, drv, told, viol>>
O3 == /\ pc = "o3" /\ IoStep                                       \* receive the reply
      /\ IF IoFails THEN Finish("CommError") /\ UNCHANGED drv
         ELSE IF policy = "SessionRefused" THEN Finish("false") /\ UNCHANGED drv
         ELSE Finish("true") /\ drv' = [drv EXCEPT !.session = tgt.next - 1]
      /\ UNCHANGED <<policy, fault, tgt, told, viol>>

\* ---- close(): forward close, unregister, socket close, reset - state is reset even when a step failed
C1 == /\ pc = "c1"
      /\ pc' = IF drv.connected THEN "c2" ELSE "c4"
      /\ UNCHANGED <<policy, fault, io, gone, drv, tgt, told, call, err, ncalls, hist, result, closeFault, viol>>
C2 == /\ pc = "c2"                                                 \* _forward_close: needs a session
      /\ IF drv.session = 0 THEN pc' = "c5" /\ err' = TRUE /\ UNCHANGED <<io, gone, tgt, closeFault>>
         ELSE /\ IoStep
              /\ IF IoFails THEN pc' = "c5" /\ err' = TRUE /\ UNCHANGED tgt
                 ELSE /\ pc' = "c3" /\ UNCHANGED err
                      /\ tgt' = IF drv.session \in tgt.sessions THEN [tgt EXCEPT !.conns = {c \in @ : c.cid # drv.cid}] ELSE tgt
      /\ UNCHANGED <<policy, fault, drv, told, call, ncalls, hist, result, viol>>
C3 == /\ pc = "c3" /\ IoStep
      /\ IF IoFails THEN pc' = "c5" /\ err' = TRUE /\ UNCHANGED <<drv, told>>
         ELSE /\ pc' = "c4" /\ UNCHANGED err
              /\ IF drv.session \in tgt.sessions THEN drv' = [drv EXCEPT !.connected = FALSE] /\ told' = told \ {drv.cid}
                 ELSE UNCHANGED <<drv, told>>
      /\ UNCHANGED <<policy, fault, tgt, call, ncalls, hist, result, viol>>
C4 == /\ pc = "c4"                                                 \* _un_register_session: send only
      /\ IF drv.session = 0 THEN pc' = "c5" /\ UNCHANGED <<io, gone, tgt, err, drv, closeFault>>
         ELSE /\ IoStep
              /\ IF IoFails THEN pc' = "c5" /\ err' = TRUE /\ UNCHANGED <<tgt, drv>>
                 ELSE pc' = "c5" /\ UNCHANGED err /\ tgt' = [tgt EXCEPT !.sessions = @ \ {drv.session}] /\ drv' = [drv EXCEPT !.session = 0]
      /\ UNCHANGED <<policy, fault, told, call, ncalls, hist, result, viol>>
C5 == /\ pc = "c5"                                                 \* socket close + unconditional reset
      /\ drv' = [drv EXCEPT !.sock = FALSE, !.connected = FALSE, !.session = 0, !.opened = FALSE]
      /\ tgt' = [tgt EXCEPT !.sessions = {},                        \* the TCP close ends the session (not the connections: routed targets)
                             !.old = @ \cup {c.triad : c \in tgt.conns}]
      /\ viol' = IF ~closeFault /\ ~gone /\ (\E c \in tgt.conns : c.cid \in told) THEN "target-dirty" ELSE viol
      /\ told' = {}                                                \* whatever was open is forgotten: later closes cannot be held to it
      /\ Finish(IF err THEN "CommError" ELSE "none")
      /\ UNCHANGED <<policy, fault, io, gone, closeFault>>

\* ---- connected message: lazy forward open with fall-back, then the request
M1 == /\ pc = "m1"
      /\ IF drv.connected THEN pc' = "m5" /\ UNCHANGED <<call, result, ncalls, hist, err>>
         ELSE IF drv.session = 0 THEN Finish("CommError")
         ELSE pc' = "m2" /\ UNCHANGED <<call, result, ncalls, hist, err>>
      /\ UNCHANGED <<policy, fault, io, gone, drv, tgt, told, closeFault, viol>>
Dup     == \E c \in tgt.conns : c.triad = drv.triad                \* the target still holds a connection with these serial numbers
Accepts == ~Dup /\ (policy = "LargeOK" \/ (policy \in {"LargeRefused", "SessionRefused"} /\ ~drv.ext))
M2 == /\ pc = "m2" /\ IoStep                                       \* send (Large) Forward Open
      /\ IF ~drv.sock \/ IoFails THEN Finish("CommError") /\ UNCHANGED tgt
         ELSE /\ pc' = "m3" /\ UNCHANGED <<call, result, ncalls, hist, err>>
              /\ tgt' = IF drv.session \in tgt.sessions /\ Accepts
                        THEN [tgt EXCEPT !.conns = @ \cup {[cid |-> tgt.next, sess |-> drv.session, size |-> drv.size, triad |-> drv.triad]}, !.next = @ + 1] ELSE tgt
      /\ viol' = IF drv.ext /\ drv.size # 4000 THEN "fo-size" ELSE IF ~drv.ext /\ drv.size # 500 THEN "fo-size"
                 \* a connection that outlived a close() (lost Forward Close) must not make the re-opened driver unusable
                 ELSE IF drv.sock /\ ~IoFails /\ drv.session \in tgt.sessions /\ Dup /\ drv.triad \in tgt.old THEN "reopen-duplicate-connection"
                 ELSE viol
      /\ UNCHANGED <<policy, fault, drv, told>>
M3 == /\ pc = "m3" /\ IoStep
      /\ IF IoFails THEN Finish("CommError") /\ UNCHANGED <<drv, told>>
         ELSE IF drv.session \in tgt.sessions /\ Accepts
              THEN /\ drv' = [drv EXCEPT !.connected = TRUE, !.cid = tgt.next - 1] /\ told' = told \cup {tgt.next - 1}
                   /\ pc' = "m5" /\ UNCHANGED <<call, result, ncalls, hist, err>>
         ELSE IF drv.ext THEN /\ drv' = [drv EXCEPT !.ext = FALSE, !.size = 500] /\ UNCHANGED told        \* fall back to the standard form
                              /\ pc' = "m2" /\ UNCHANGED <<call, result, ncalls, hist, err>>
         ELSE Finish("ResponseError") /\ UNCHANGED <<drv, told>>
      /\ UNCHANGED <<policy, fault, tgt, viol>>
M5 == /\ pc = "m5" /\ IoStep                                       \* send the connected request
      /\ IF ~drv.sock \/ IoFails THEN Finish("CommError") /\ UNCHANGED viol
         ELSE /\ pc' = "m6" /\ UNCHANGED <<call, result, ncalls, hist, err>>
              /\ viol' = IF drv.session \notin tgt.sessions THEN "no-session"
                         ELSE IF ~\E c \in tgt.conns : c.cid = drv.cid /\ c.sess = drv.session THEN "connected-before-open" ELSE viol
      /\ UNCHANGED <<policy, fault, drv, tgt, told>>
M6 == /\ pc = "m6" /\ IoStep
      /\ Finish(IF IoFails THEN "CommError" ELSE "tag")
      /\ UNCHANGED <<policy, fault, drv, tgt, told, viol>>

\* ---- unconnected message
U1 == /\ pc = "u1" /\ IoStep
      /\ IF ~drv.sock \/ IoFails THEN Finish("CommError") ELSE pc' = "u2" /\ UNCHANGED <<call, result, ncalls, hist, err>>
      /\ UNCHANGED <<policy, fault, drv, tgt, told, viol>>
U2 == /\ pc = "u2" /\ IoStep
      /\ Finish(IF IoFails THEN "CommError" ELSE "tag")
      /\ UNCHANGED <<policy, fault, drv, tgt, told, viol>>

\* the environment: between two calls the target changes its admission policy (it was busy and now admits connections, or
\* the reverse); the driver learns nothing of it
PolicyChange == /\ call = "idle" /\ pch < MaxPolicyChanges /\ viol = "" /\ ncalls < MaxCalls /\ ncalls > 0
                /\ \E p \in Policies \ {policy} : policy' = p
                /\ pch' = pch + 1
                /\ UNCHANGED <<fault, io, gone, drv, tgt, told, call, pc, err, ncalls, hist, result, closeFault, viol>>
Driver == \/ \E c \in Calls : Begin(c)
          \/ O1 \/ O2 \/ O3 \/ C1 \/ C2 \/ C3 \/ C4 \/ C5 \/ M1 \/ M2 \/ M3 \/ M5 \/ M6 \/ U1 \/ U2
Next == (Driver /\ UNCHANGED pch) \/ PolicyChange
Spec == Init /\ [][Next]_vars /\ WF_vars(Next)

(* ------------------------------------------------ Contract ------------------------------------------------ *)
NoViolation == viol = ""
\* failures surface only as library exceptions or falsy results
OnlyLibraryFailures == result \in {"none", "true", "false", "tag", "CommError", "ResponseError"}
\* after close() returned (normally or not) the driver is reset
CloseResets == (call = "idle" /\ Len(hist) > 0 /\ Gen /\ hist[Len(hist)] = "close") =>
                   (~drv.opened /\ ~drv.connected /\ drv.session = 0 /\ ~drv.sock)
CloseResetsNoHist == (pc = "idle" /\ result \in {"none", "CommError"} /\ ~drv.sock) => (~drv.opened /\ ~drv.connected /\ drv.session = 0)
\* the driver believes it is connected only if the target really holds that connection for its session (unless the peer is gone)
ConnectedMeansOpen == (call = "idle" /\ drv.connected /\ ~gone /\ drv.session \in tgt.sessions) => \E c \in tgt.conns : c.cid = drv.cid
\* the standard Forward Open is only tried after the large one was refused, and with the 500-byte size
FallbackOrderAndSize == ~drv.ext => drv.size = 500
\* every call terminates
Terminates == []<>(call = "idle")
\* a close without faults on a reachable target leaves nothing behind, and a following open + connected message works
ReopenWorks == [][(call = "open" /\ call' = "idle" /\ fault.kind = "none" /\ policy # "SessionRefused" /\ pch = 0) => result' = "true"]_vars

Emit == (Gen /\ call = "idle" /\ ncalls = MaxCalls) => PrintT(<<"BEH", policy, fault.kind, fault.at, hist, io>>)
==============================================================================
