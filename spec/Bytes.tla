------------------------------- MODULE Bytes -------------------------------
(* Byte sequences, little-endian fields, and integers beyond TLC's 32 bits.                              *)
(* Big integers are "the number as written": [neg, d1, ..., dn] with base-256 digits, most significant   *)
(* first, n >= 1, no leading zero digit except for the number zero (<<0, 0>>).                           *)
EXTENDS Integers, Sequences, FiniteSets, FiniteSetsExt, Functions, SequencesExt

Byte == 0..255

Zeros(n)     == [i \in 1..n |-> 0]
Rev(s)       == [i \in 1..Len(s) |-> s[Len(s) + 1 - i]]
Take(s, n)   == SubSeq(s, 1, IF n < Len(s) THEN n ELSE Len(s))
Drop(s, n)   == SubSeq(s, n + 1, Len(s))
PadRight(s, n) == IF Len(s) >= n THEN s ELSE s \o Zeros(n - Len(s))
PadLeft(s, n)  == IF Len(s) >= n THEN s ELSE Zeros(n - Len(s)) \o s
IsBytes(s)   == \A i \in 1..Len(s) : s[i] \in Byte
AllZero(s)   == \A i \in 1..Len(s) : s[i] = 0

Pow256(k) == CASE k = 0 -> 1 [] k = 1 -> 256 [] k = 2 -> 65536 [] k = 3 -> 16777216
Pow2(k)   == CASE k = 0 -> 1 [] k = 1 -> 2 [] k = 2 -> 4 [] k = 3 -> 8 [] k = 4 -> 16 [] k = 5 -> 32 [] k = 6 -> 64 [] k = 7 -> 128

\* ---- small naturals (< 2^31) -----------------------------------------------------------------------
LE(n, w)  == [i \in 1..w |-> IF i <= 4 THEN (n \div Pow256(i - 1)) % 256 ELSE 0]
U8(b, p)  == b[p]
U16(b, p) == b[p] + 256 * b[p + 1]
U24(b, p) == b[p] + 256 * b[p + 1] + 65536 * b[p + 2]
\* a 4-byte little-endian field whose value is known to be < 2^31 (lengths, offsets)
U32(b, p) == b[p] + 256 * b[p + 1] + 65536 * b[p + 2] + 16777216 * b[p + 3]
FitsInt31(b, p) == b[p + 3] < 128

\* ---- bits ---------------------------------------------------------------------------------------------
BitOf(byte, i) == (byte \div Pow2(i)) % 2                           \* i = 0 is the least significant bit
\* bit sequence, most significant bit first, of a little-endian byte string
BitsMSB(bytes) == LET n == Len(bytes) IN [j \in 1..(8 * n) |-> BitOf(bytes[n - ((j - 1) \div 8)], 7 - ((j - 1) % 8))]
\* inverse: bits MSB first (length multiple of 8) -> little-endian bytes
ByteOfBits(bits, p) == 128 * bits[p] + 64 * bits[p + 1] + 32 * bits[p + 2] + 16 * bits[p + 3]
                       + 8 * bits[p + 4] + 4 * bits[p + 5] + 2 * bits[p + 6] + bits[p + 7]
BytesOfBitsMSB(bits) == LET n == Len(bits) \div 8 IN [i \in 1..n |-> ByteOfBits(bits, 8 * (n - i) + 1)]

ByteAnd(a, b) == FoldLeft(LAMBDA acc, i : acc + (IF BitOf(a, i) = 1 /\ BitOf(b, i) = 1 THEN Pow2(i) ELSE 0), 0, <<0, 1, 2, 3, 4, 5, 6, 7>>)
ByteOr(a, b)  == FoldLeft(LAMBDA acc, i : acc + (IF BitOf(a, i) = 1 \/ BitOf(b, i) = 1 THEN Pow2(i) ELSE 0), 0, <<0, 1, 2, 3, 4, 5, 6, 7>>)
BitOf16(w, i) == IF i < 8 THEN BitOf(w % 256, i) ELSE BitOf(w \div 256, i - 8)
ByteXor(a, b) == FoldLeft(LAMBDA acc, i : acc + (IF BitOf(a, i) # BitOf(b, i) THEN Pow2(i) ELSE 0), 0, <<0, 1, 2, 3, 4, 5, 6, 7>>)
\* 0/1 flags, bit 0 first, length a multiple of 8 -> bytes
BytesOfFlags(f) == [j \in 1..(Len(f) \div 8) |-> FoldLeft(LAMBDA acc, i : acc + f[8 * (j - 1) + i + 1] * Pow2(i), 0, <<0, 1, 2, 3, 4, 5, 6, 7>>)]
RECURSIVE DecDigitsN(_)
DecDigitsN(n) == IF n < 10 THEN <<48 + n>> ELSE DecDigitsN(n \div 10) \o <<48 + (n % 10)>>

\* ---- big integers --------------------------------------------------------------------------------------
BigZero     == <<0, 0>>
Mag(t)      == Drop(t, 1)
IsNeg(t)    == t[1] = 1
StripLead(d) == LET nz == {i \in 1..Len(d) : d[i] # 0}
                IN  IF nz = {} THEN <<0>> ELSE SubSeq(d, Min(nz), Len(d))
IsCanonicalBig(t) == /\ Len(t) >= 2 /\ t[1] \in {0, 1} /\ IsBytes(Mag(t))
                     /\ (Len(t) > 2 => t[2] # 0)
                     /\ (Mag(t) = <<0>> => t[1] = 0)
MkBig(neg, digitsMSB) == LET m == StripLead(digitsMSB) IN <<IF m = <<0>> THEN 0 ELSE neg>> \o m

FitsUnsigned(t, w) == ~IsNeg(t) /\ Len(Mag(t)) <= w
FitsSigned(t, w) ==
    LET m == Mag(t) IN
    \/ Len(m) < w
    \/ /\ Len(m) = w
       /\ IF IsNeg(t) THEN m[1] < 128 \/ (m[1] = 128 /\ AllZero(Drop(m, 1))) ELSE m[1] < 128

\* add one to a little-endian byte string (wrapping at its width)
IncLE(b) == LET n == Len(b)
                firstNot255 == {i \in 1..n : b[i] # 255}
                k == IF firstNot255 = {} THEN n + 1 ELSE Min(firstNot255)
            IN  [i \in 1..n |-> IF i < k THEN 0 ELSE IF i = k THEN b[i] + 1 ELSE b[i]]
NotLE(b) == [i \in 1..Len(b) |-> 255 - b[i]]

\* two's-complement little-endian layout of width w (the caller checked the range)
BigToLE(t, w) == LET le == Rev(PadLeft(Mag(t), w)) IN IF IsNeg(t) THEN IncLE(NotLE(le)) ELSE le
\* and back
LEToBig(b, signed) ==
    LET n == Len(b) IN
    IF signed /\ b[n] >= 128 THEN MkBig(1, Rev(IncLE(NotLE(b)))) ELSE MkBig(0, Rev(b))
LE32Big(t) == Rev(PadLeft(Mag(t), 4))                       \* non-negative big integer < 2^32 as 4 little-endian bytes
SmallToBig(n) == MkBig(0, Rev(LE(n, 4)))
\* value of a big integer known to be small and non-negative (lengths)
BigToSmall(t) == LET m == PadLeft(Mag(t), 4) IN m[4] + 256 * m[3] + 65536 * m[2] + 16777216 * m[1]
BigIsSmall(t) == ~IsNeg(t) /\ (Len(Mag(t)) < 4 \/ (Len(Mag(t)) = 4 /\ Mag(t)[1] < 128))
BigIsZero(t)  == Mag(t) = <<0>>
=============================================================================
