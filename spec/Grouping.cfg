SPECIFICATION Spec
CONSTANTS S = 40  MaxReq = 4  DataSizes = {1, 8, 10, 19, 20, 21, 35}
INVARIANT ExactlyOnePacket
INVARIANT NoEmptyPacket
INVARIANT GroupReplyFits
INVARIANT OrderPreserved
CHECK_DEADLOCK FALSE
