SPECIFICATION Spec
CONSTANTS S = 40  MaxReq = 4  DataSizes = {1, 8, 10, 19, 20, 21, 35}  PathLens = {2, 8, 14}
INVARIANT ExactlyOnePacket
INVARIANT NoEmptyPacket
INVARIANT GroupReplyFits
INVARIANT GroupRequestFits
INVARIANT OrderPreserved
CHECK_DEADLOCK FALSE
