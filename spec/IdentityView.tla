---------------------------- MODULE IdentityView ----------------------------
(* Property C16: a device identity as the user sees it - every field exactly as encoded, vendor / product type    *)
(* through the exported tables or 'UNKNOWN', serial number as 8 lower-case hex digits.                             *)
EXTENDS EipTarget, CipTypes

(* Identity as the user sees it (C16): every field exactly as encoded, vendor / product type through the exported  *)
(* tables or 'UNKNOWN', serial as 8 lower-case hex digits.                                                          *)
K(str) == str
HexDig(d) == IF d < 10 THEN 48 + d ELSE 87 + d
Hex8(b4) == <<HexDig(b4[4] \div 16), HexDig(b4[4] % 16), HexDig(b4[3] \div 16), HexDig(b4[3] % 16),
              HexDig(b4[2] \div 16), HexDig(b4[2] % 16), HexDig(b4[1] \div 16), HexDig(b4[1] % 16)>>
Unknown == <<85, 78, 75, 78, 79, 87, 78>>
Field(v, name) == DictGet(v.d, name)
FieldIs(v, name, x) == Field(v, name).ok /\ TermEq(Field(v, name).v, x)
IdentityClause(i, v, list) ==
    IF ~IsD(v) THEN "C16:field:shape"
    ELSE IF ~FieldIs(v, <<118, 101, 110, 100, 111, 114>>, MkS(IF i.vendor_text.has = 1 THEN i.vendor_text.s ELSE Unknown)) THEN "C16:field:vendor"
    ELSE IF ~FieldIs(v, <<112, 114, 111, 100, 117, 99, 116, 95, 116, 121, 112, 101>>, MkS(IF i.ptype_text.has = 1 THEN i.ptype_text.s ELSE Unknown)) THEN "C16:field:product_type"
    ELSE IF ~FieldIs(v, <<112, 114, 111, 100, 117, 99, 116, 95, 99, 111, 100, 101>>, MkI(SmallToBig(i.product_code))) THEN "C16:field:product_code"
    ELSE IF ~FieldIs(v, <<114, 101, 118, 105, 115, 105, 111, 110>>, MkD(<<<<MkS(<<109, 97, 106, 111, 114>>), MkI(SmallToBig(i.rev_major))>>,
                                                                         <<MkS(<<109, 105, 110, 111, 114>>), MkI(SmallToBig(i.rev_minor))>>>>)) THEN "C16:field:revision"
    ELSE IF ~FieldIs(v, <<115, 116, 97, 116, 117, 115>>, [b |-> i.status]) THEN "C16:field:status"
    ELSE IF ~FieldIs(v, <<115, 101, 114, 105, 97, 108>>, MkS(Hex8(i.serial_b))) THEN "C16:serial-format"
    ELSE IF ~FieldIs(v, <<112, 114, 111, 100, 117, 99, 116, 95, 110, 97, 109, 101>>, MkS(i.name)) THEN "C16:field:product_name"
    ELSE IF list /\ ~FieldIs(v, <<105, 112, 95, 97, 100, 100, 114, 101, 115, 115>>, MkS(QuadText(i.ip, 1))) THEN "C16:field:ip_address"
    ELSE IF list /\ ~FieldIs(v, <<115, 116, 97, 116, 101>>, MkI(SmallToBig(i.state))) THEN "C16:field:state"
    ELSE IF list /\ ~FieldIs(v, <<101, 110, 99, 97, 112, 95, 112, 114, 111, 116, 111, 99, 111, 108, 95, 118, 101, 114, 115, 105, 111, 110>>, MkI(SmallToBig(1))) THEN "C16:field:encap_protocol_version"
    ELSE ""
\* datetime can represent years 1..9999: microseconds below 253402300800000000 (8 bytes little-endian compare on the top bytes)
TimeInRange(c) == c[8] < 3 \/ (c[8] = 3 /\ c[7] < 132)

=============================================================================
