------------------------------ MODULE Grouping ------------------------------
(* Properties C03 / C04 (grouping part).  Design = how LogixDriver.read places n requests: requests that failed   *)
(* to parse are skipped, requests whose estimated reply does not fit become fragmented transfers, the others are      *)
(* packed greedily, in order, into multi-service packets whose estimated reply stays within the connection size;     *)
(* results are keyed by the request's position.  Contract = every sendable request is placed in exactly one packet,   *)
(* every packet's real reply fits the connection, and result i answers request i.                                     *)
EXTENDS Integers, Sequences, FiniteSets, FiniteSetsExt, TLC

CONSTANTS S, MaxReq, DataSizes          \* connection size, requests per call, data sizes explored
MOVH == 10
Bad == -1
Kinds == {Bad} \cup DataSizes            \* a request is unparsable (Bad) or has a data size

VARIABLES reqs, groups, frags, placed
vars == <<reqs, groups, frags, placed>>

Est(d)  == d + 10                         \* estimated reply of one member: offset 2 + header 4 + type <= 4 + data
Real(d) == 2 + 4 + 2 + d                  \* real reply of one member (atomic type): offset + header + type + data
RECURSIVE SumReal(_, _)
SumReal(g, k) == IF k = 0 THEN 0 ELSE Real(reqs[g[k]]) + SumReal(g, k - 1)
RealReply(g) == 2 + 4 + 2 + SumReal(g, Len(g))

Init == /\ reqs \in UNION {[1..n -> Kinds] : n \in 1..MaxReq}
        /\ groups = <<>> /\ frags = <<>> /\ placed = FALSE

\* the greedy grouping loop of _read_build_multi_requests, run to completion as one step
RECURSIVE Pack(_, _, _, _)
Pack(ids, cur, size, acc) ==
    IF ids = <<>> THEN (IF cur = <<>> THEN acc ELSE Append(acc, cur))
    ELSE LET i == Head(ids)  e == Est(reqs[i]) IN
         IF size + e > S /\ cur # <<>> THEN Pack(Tail(ids), <<i>>, MOVH + e, Append(acc, cur))
         ELSE Pack(Tail(ids), Append(cur, i), size + e, acc)

Place == /\ ~placed
         /\ LET n == Len(reqs)
                sendable == SelectSeq([i \in 1..n |-> i], LAMBDA i : reqs[i] # Bad)
                fragd == SelectSeq(sendable, LAMBDA i : Est(reqs[i]) + MOVH > S)
                small == SelectSeq(sendable, LAMBDA i : Est(reqs[i]) + MOVH <= S)
            IN groups' = Pack(small, <<>>, MOVH, <<>>) /\ frags' = fragd
         /\ placed' = TRUE /\ UNCHANGED reqs
Next == Place
Spec == Init /\ [][Next]_vars

InGroups(i) == Cardinality({g \in 1..Len(groups) : \E k \in 1..Len(groups[g]) : groups[g][k] = i})
InFrags(i)  == Cardinality({k \in 1..Len(frags) : frags[k] = i})
ExactlyOnePacket == placed => \A i \in 1..Len(reqs) : IF reqs[i] = Bad THEN InGroups(i) + InFrags(i) = 0 ELSE InGroups(i) + InFrags(i) = 1
NoEmptyPacket    == \A g \in 1..Len(groups) : groups[g] # <<>>
GroupReplyFits   == \A g \in 1..Len(groups) : RealReply(groups[g]) <= S
OrderPreserved   == \A g \in 1..Len(groups) : \A a, b \in 1..Len(groups[g]) : a < b => groups[g][a] < groups[g][b]
=============================================================================
