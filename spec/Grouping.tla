------------------------------ MODULE Grouping ------------------------------
(* Properties C03 / C04 (grouping part).  Design = how LogixDriver.read / write place n requests: requests that failed *)
(* to parse are skipped, requests whose estimated reply (read) or own message (write) does not fit become fragmented   *)
(* transfers, the others are packed greedily, in order, into multi-service packets: a read joins the current packet    *)
(* while the estimated reply AND the request item stay within the connection size, a write while the request item       *)
(* does; results are keyed by the request's position.  Contract = every sendable request is placed in exactly one      *)
(* packet, every packet's real request item and real reply item fit the connection, and order is kept.                 *)
(* Sizes are those of the connected data item (sequence count included), as in Transfer.tla.                            *)
EXTENDS Integers, Sequences, FiniteSets, FiniteSetsExt, SequencesExt, TLC

CONSTANTS S, MaxReq, DataSizes, PathLens   \* connection size, requests per call, data sizes and (even) path lengths explored
MOVH == 10
Bad == [d |-> -1, p |-> 0]
Kinds == {Bad} \cup [d : DataSizes, p : PathLens]

VARIABLES mode, reqs, groups, frags, placed
vars == <<mode, reqs, groups, frags, placed>>

IsBad(r) == r.d < 0
Est(r)  == r.d + 10                       \* estimated reply of one read member: offset 2 + header 4 + type <= 4 + data
Real(r) == 2 + 4 + 2 + r.d                \* real reply of one read member (atomic type): offset + header + type + data
Msg(r)  == IF mode = "read" THEN 2 + 1 + 1 + r.p + 2                \* len(request.message): sequence count, service, path size, path, count
                            ELSE 2 + 1 + 1 + r.p + 2 + 2 + r.d      \* ... + data type + data
SumOver(g, k, F(_)) == FoldLeft(LAMBDA a, i : a + F(reqs[i]), 0, SubSeq(g, 1, k))
RealReply(g)   == IF mode = "read" THEN 2 + 4 + 2 + SumOver(g, Len(g), Real) ELSE 2 + 4 + 2 + 6 * Len(g)
\* sequence 2 + service/path of the message router 6 + count 2 + per member (offset 2 + message without its sequence count)
MemberCost(r)  == 2 + Msg(r) - 2
RealRequest(g) == 2 + 6 + 2 + SumOver(g, Len(g), MemberCost)

Init == /\ mode \in {"read", "write"}
        /\ reqs \in UNION {[1..n -> Kinds] : n \in 1..MaxReq}
        /\ groups = <<>> /\ frags = <<>> /\ placed = FALSE

\* the greedy grouping loops of _read_build_multi_requests / _write_build_multi_requests, run to completion as one step
RECURSIVE Pack(_, _, _, _, _)
Pack(ids, cur, rsize, qsize, acc) ==
    IF ids = <<>> THEN (IF cur = <<>> THEN acc ELSE Append(acc, cur))
    ELSE LET i == Head(ids)  e == IF mode = "read" THEN Est(reqs[i]) ELSE 0  m == Msg(reqs[i]) IN
         IF (rsize + e > S \/ qsize + m > S) /\ cur # <<>> THEN Pack(Tail(ids), <<i>>, MOVH + e, MOVH + m, Append(acc, cur))
         ELSE Pack(Tail(ids), Append(cur, i), rsize + e, qsize + m, acc)

\* a call with exactly one request takes the single-request path: no multi-service overhead in the decision
Single == Len(reqs) = 1
\* (as written in _write_build_single_request the value bytes are counted twice - len(write_value) + len(message) - so a
\* single write is fragmented earlier than necessary; harmless for the contract, kept because the model follows the code)
Fragmented(r) == IF Single THEN (IF mode = "read" THEN Est(r) > S ELSE Msg(r) + r.d > S)
                 ELSE IF mode = "read" THEN Est(r) + MOVH > S ELSE Msg(r) + MOVH > S
Place == /\ ~placed
         /\ LET n == Len(reqs)
                sendable == SelectSeq([i \in 1..n |-> i], LAMBDA i : ~IsBad(reqs[i]))
                fragd == SelectSeq(sendable, LAMBDA i : Fragmented(reqs[i]))
                small == SelectSeq(sendable, LAMBDA i : ~Fragmented(reqs[i]))
            IN groups' = Pack(small, <<>>, MOVH, MOVH, <<>>) /\ frags' = fragd
         /\ placed' = TRUE /\ UNCHANGED <<mode, reqs>>
Next == Place
Spec == Init /\ [][Next]_vars

InGroups(i) == Cardinality({g \in 1..Len(groups) : \E k \in 1..Len(groups[g]) : groups[g][k] = i})
InFrags(i)  == Cardinality({k \in 1..Len(frags) : frags[k] = i})
ExactlyOnePacket == placed => \A i \in 1..Len(reqs) : IF IsBad(reqs[i]) THEN InGroups(i) + InFrags(i) = 0 ELSE InGroups(i) + InFrags(i) = 1
NoEmptyPacket    == \A g \in 1..Len(groups) : groups[g] # <<>>
BareReply(r)     == IF mode = "read" THEN 2 + 4 + 2 + r.d ELSE 2 + 4
GroupReplyFits   == \A g \in 1..Len(groups) : IF Single THEN BareReply(reqs[groups[g][1]]) <= S ELSE RealReply(groups[g]) <= S
GroupRequestFits == \A g \in 1..Len(groups) : IF Single THEN Msg(reqs[groups[g][1]]) <= S ELSE RealRequest(groups[g]) <= S
\* behaviour generation (R2): every request list with the placement the design computes for it
Emit == placed => PrintT(<<"BEH", mode, [i \in 1..Len(reqs) |-> <<reqs[i].d, reqs[i].p>>], groups, frags>>)
OrderPreserved   == \A g \in 1..Len(groups) : \A a, b \in 1..Len(groups[g]) : a < b => groups[g][a] < groups[g][b]
=============================================================================
