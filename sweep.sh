#!/bin/sh
# seed sweep of the quick checks given as arguments: ./sweep.sh "1 2 3" C06 C07 ...
seeds=$1; shift
for p in "$@"; do for s in $seeds; do
  out=$(VERIF_SEED=$s VERIF_AUDIT=1 timeout 2400 ./check $p --tier ${TIER:-quick} 2>&1); rc=$?
  echo "SWEEP $p seed=$s rc=$rc $(echo "$out" | grep -c '^VIOLATION') violations; $(echo "$out" | tail -1 | cut -c1-200)"
  echo "$out" | grep '^VIOLATION\|^MACHINERY' | cut -c1-400 | head -5
done; done
