#!/bin/sh
# Run once after a fresh restore, offline.  Nothing is compiled: the framework is TLA+ modules + Python sources.
set -e
cd "$(dirname "$0")"
mkdir -p out evidence
java -version 2>&1 | head -1
test -f /opt/veriftools/tla/tla2tools.jar
/venv/bin/python -B -c "import sys; sys.path.insert(0, '.'); from vf import values; assert values.selftest(); print('values selftest ok')"
# every specification module must parse
cd spec
for f in *.tla; do
  java -cp /opt/veriftools/tla/tla2tools.jar:/opt/veriftools/tla/CommunityModules-deps.jar tla2sany.SANY "$f" > ../out/sany.log 2>&1 || { cat ../out/sany.log; echo "SANY failed on $f"; exit 1; }
done
echo "setup ok"
